# Common environment for every build of the harness (offline, pinned toolchain switch allowed).
export GOFLAGS=-mod=mod
export GOPROXY=off
unset GOTOOLCHAIN GOSUMDB 2>/dev/null || true
export VERIF_ROOT=${VERIF_ROOT:-/verif}
export REPO_ROOT=${REPO_ROOT:-/repo}
export GOCACHE=${GOCACHE:-/root/.cache/go-build}
