package main

// E1: stateless exploration of the real block tasks of CompressedStream.go under the controlled
// scheduler (vcoop). One scenario = one small driver run; the explorer enumerates every
// interleaving of its scheduling points, either up to a preemption bound (mode "bounded") or
// without bound using sleep sets (mode "sleep"). Each scenario runs in its own worker process
// (the scheduler is a process-wide singleton).

import (
	"bytes"
	"encoding/json"
	"fmt"
	"io"
	"os"
	"os/exec"
	"sort"
	"strings"
	"sync"
	"time"
	"unsafe"

	kanzi "github.com/flanglet/kanzi-go/v2"
	"github.com/flanglet/kanzi-go/v2/bitstream"
	kio "github.com/flanglet/kanzi-go/v2/io"
	"github.com/flanglet/kanzi-go/v2/zverif/vcoop"
)

// ---- monitored shared bitstreams ----

type mobs struct{ in kanzi.OutputBitStream }

func (m *mobs) WriteBit(b int) { vcoop.StreamOp(unsafe.Pointer(m), "WriteBit"); m.in.WriteBit(b) }
func (m *mobs) WriteBits(v uint64, n uint) uint {
	vcoop.StreamOp(unsafe.Pointer(m), "WriteBits")
	return m.in.WriteBits(v, n)
}
func (m *mobs) WriteArray(b []byte, n uint) uint {
	vcoop.StreamOp(unsafe.Pointer(m), "WriteArray")
	return m.in.WriteArray(b, n)
}
func (m *mobs) Close() error    { vcoop.StreamOp(unsafe.Pointer(m), "Close"); return m.in.Close() }
func (m *mobs) Written() uint64 { return m.in.Written() }

type mibs struct{ in kanzi.InputBitStream }

func (m *mibs) ReadBit() int { vcoop.StreamOp(unsafe.Pointer(m), "ReadBit"); return m.in.ReadBit() }
func (m *mibs) ReadBits(n uint) uint64 {
	vcoop.StreamOp(unsafe.Pointer(m), "ReadBits")
	return m.in.ReadBits(n)
}
func (m *mibs) ReadArray(b []byte, n uint) uint {
	vcoop.StreamOp(unsafe.Pointer(m), "ReadArray")
	return m.in.ReadArray(b, n)
}
func (m *mibs) Close() error                 { return m.in.Close() }
func (m *mibs) Read() uint64                 { return m.in.Read() }
func (m *mibs) HasMoreToRead() (bool, error) { return m.in.HasMoreToRead() }

// ---- scenario specification ----

type e1Spec struct {
	Name      string `json:"name"`
	Kind      string `json:"kind"` // "enc" | "dec" | "pair"
	Jobs      uint   `json:"jobs"`
	Blocks    int    `json:"blocks"` // full blocks
	Tail      int    `json:"tail"`   // bytes in the last partial block
	Hint      int64  `json:"hint"`   // -1 absent, -2 exact
	Transform string `json:"transform"`
	Entropy   string `json:"entropy"`
	Checksum  uint   `json:"checksum"`
	Parts     []int  `json:"parts,omitempty"` // Write partition (enc)
	// stall injection: task thread StallThread (first batch) polls StallPolls times in its wait loop
	// while its predecessor stands still (mode "stall": one directed execution)
	StallThread  int   `json:"stall_thread,omitempty"`
	StallThreads []int `json:"stall_threads,omitempty"` // several waiters, each stalled at its first wait (any mode)
	StallPolls   int64 `json:"stall_polls,omitempty"`
	Skip      bool   `json:"skip_blocks,omitempty"` // ctx skipBlocks
	Magic     bool   `json:"magic,omitempty"`       // the data starts with the signature of a compressed format
	// fault injection (panic with an error inside a shared-stream op, or in the compute phase)
	FaultThread int    `json:"fault_thread"` // -1 none; controlled thread id (tasks are 1.. in spawn order)
	FaultSite   string `json:"fault_site,omitempty"`
	FaultNth    int    `json:"fault_nth,omitempty"`
	// decoder input damage
	CorruptBlock int    `json:"corrupt_block,omitempty"` // 1-based, 0 none
	CorruptKind  string `json:"corrupt_kind,omitempty"`  // "payload" | "length" | "truncate"
	EncJobs      uint   `json:"enc_jobs,omitempty"`
	ReadBuf      int    `json:"read_buf,omitempty"`
	From         int    `json:"from,omitempty"`
	To           int    `json:"to,omitempty"`
	// "pair" scenarios (C18): two independent pipelines, each driven by its own controlled thread
	Members []e1Spec `json:"members,omitempty"`
	// exploration
	Mode     string `json:"mode"`  // "bounded" | "sleep"
	Bound    int    `json:"bound"` // preemption bound for "bounded" (-1 = none)
	MaxExecs int    `json:"max_execs,omitempty"`
	MaxSecs  int    `json:"max_secs,omitempty"`
	// which oracles decide (tags); violations of other oracles are counted but do not stop the run
	Oracles []string `json:"oracles"`
	// model conformance: directory holding the TLC state graphs (dot) of models/HandOff.tla; when
	// set, every execution's event trace is walked through the graph of its batch size
	ModelDir string `json:"model_dir,omitempty"`
}

const e1B = 1024

func e1data(blocks, tail int, salt byte) []byte {
	d := make([]byte, blocks*e1B+tail)
	for i := range d {
		d[i] = byte(i/e1B*37+i%13) ^ salt
	}
	return d
}

func (sp *e1Spec) params(jobs uint) Params {
	p := Params{Transform: sp.Transform, Entropy: sp.Entropy, Block: e1B, Jobs: jobs, Checksum: sp.Checksum, Hint: sp.Hint, Skip: sp.Skip}
	if sp.Hint == -2 {
		p.Hint = int64(sp.Blocks*e1B + sp.Tail)
	}
	return p
}

type e1Viol struct {
	Tag     string `json:"tag"` // oracle tag, e.g. "exclusivity"
	Detail  string `json:"detail"`
	Choices []int  `json:"choices"`
	Events  string `json:"events,omitempty"`
}

type e1Result struct {
	Spec        e1Spec         `json:"spec"`
	Execs       int            `json:"execs"`
	Redundant   int            `json:"redundant"`
	Merged      int            `json:"merged"`
	Points      int            `json:"points"`
	MaxPoints   int            `json:"max_points"`
	States      int            `json:"states"`
	Transitions int            `json:"transitions"`
	Outcomes    map[string]int `json:"outcomes"`
	Viols       []e1Viol       `json:"violations"`
	OtherTags   map[string]int `json:"other_tags,omitempty"`
	Capped      string         `json:"capped,omitempty"`
	BoundDone   int            `json:"bound_done"`
	// model conformance (implementation traces walked through the TLC state graph)
	TracesWalked  int    `json:"traces_walked,omitempty"`
	BatchesWalked int    `json:"batches_walked,omitempty"`
	ModelMismatch string `json:"model_mismatch,omitempty"`
	ModelNodesHit int    `json:"model_nodes_hit,omitempty"`
	WallS       float64        `json:"wall_s"`
	HarnessErr  string         `json:"harness_error,omitempty"`
}

// ---- one execution ----

type e1Monitor struct {
	s          *vcoop.Sched
	holder     int
	lastFirst  int
	viols      map[string]string
	events     []string
	evs        []evRec // structured events (kept with keepEvents): input of the model conformance walk
	keepEvents bool
	cancelAt   int         // event index of the last store of -1 by a task (0 = none)
	lastLoadAt map[int]int // per thread: event index of its last atomic load
	nEv        int
	faultCall  int // index of the API call during which the fault fired (-1 none)
	curCall    int
}

func (mo *e1Monitor) flag(tag, detail string) {
	if _, ok := mo.viols[tag]; !ok {
		mo.viols[tag] = detail
	}
}

func (mo *e1Monitor) onEvent(e vcoop.Event) {
	mo.nEv++
	if mo.keepEvents {
		mo.events = append(mo.events, fmt.Sprintf("T%d:%s:%s%d", e.Thread, e.Kind, e.Detail, e.Val))
		mo.evs = append(mo.evs, evRec{e.Thread, e.Kind, e.Val})
	}
	t := e.Thread
	switch e.Kind {
	case vcoop.OpLoad:
		mo.lastLoadAt[t] = mo.nEv
	case vcoop.OpStream:
		if t != 0 {
			if mo.holder != -1 && mo.holder != t {
				mo.flag("exclusivity", fmt.Sprintf("task thread T%d performs %s on the shared stream while T%d holds it", t, e.Detail, mo.holder))
			}
			if mo.holder != t {
				// T acquires the stream
				if mo.lastFirst > t {
					mo.flag("order", fmt.Sprintf("task thread T%d (later block) accessed the shared stream before T%d", mo.lastFirst, t))
				}
				mo.lastFirst = t
				if mo.cancelAt > 0 && mo.lastLoadAt[t] > mo.cancelAt {
					mo.flag("continues-after-cancel", fmt.Sprintf("a failure/end was signalled (cancel stored), yet task thread T%d, which had not acquired the stream before, read the token afterwards and went on to use the shared stream", t))
				}
			}
			mo.holder = t
			mo.s.Holder = t
		} else if mo.holder != -1 {
			mo.flag("exclusivity", fmt.Sprintf("the calling goroutine performs %s on the shared stream while task T%d holds it", e.Detail, mo.holder))
		}
	case vcoop.OpStore, vcoop.OpCAS, vcoop.OpSwap, vcoop.OpAdd:
		// any write to an atomic by the holder counts as passing the token on (store, CAS, swap, add)
		if t != 0 && e.Kind == vcoop.OpStore && e.Val == -1 {
			mo.cancelAt = mo.nEv
		}
		if mo.holder == t {
			mo.holder = -1
			mo.s.Holder = -1
		}
	case vcoop.OpExit:
		if mo.holder == t {
			mo.holder = -1
			mo.s.Holder = -1
		}
	case vcoop.OpFault:
		mo.faultCall = mo.curCall
	}
}

type evRec struct {
	T    int
	Kind vcoop.OpKind
	Val  int64
}

type e1Exec struct {
	outcome string
	viols   map[string]string
	sched   *vcoop.Sched
	events  []string
	evs     []evRec
}

type callRec struct {
	Name string
	N    int
	Err  bool
	EOF  bool
}

func callsString(cs []callRec) string {
	var sb strings.Builder
	for _, c := range cs {
		e := "ok"
		if c.EOF {
			e = "EOF"
		} else if c.Err {
			e = "ERR"
		}
		fmt.Fprintf(&sb, "%s=%d,%s;", c.Name, c.N, e)
	}
	return sb.String()
}

// prepared, execution-independent inputs of a scenario
type e1Prep struct {
	data   []byte
	ref    []byte // fault-free stream (jobs=1, free-running)
	stream []byte // decoder input (possibly damaged)
	expect []byte // what the decoder must deliver (range applied)
	limit  int    // failing block: output must not extend beyond this many bytes (-1 = no failure expected)
}

func e1Prepare(sp *e1Spec, salt byte) (*e1Prep, error) {
	p := &e1Prep{limit: -1}
	p.data = e1data(sp.Blocks, sp.Tail, salt)
	if sp.Magic {
		copy(p.data, []byte{'P', 'K', 3, 4, 20, 0, 0, 0})
	}
	ej := sp.EncJobs
	if ej == 0 {
		ej = 1
	}
	ref, where, err := compress(p.data, sp.params(ej))
	if err != nil {
		return nil, fmt.Errorf("reference compression failed at %s: %v", where, err)
	}
	p.ref = ref
	if sp.Kind == "enc" {
		// the fault-free reference uses jobs=1 and one Write call
		r1, _, err := compress(p.data, sp.params(1))
		if err != nil {
			return nil, err
		}
		p.ref = r1
		return p, nil
	}
	p.stream = append([]byte{}, ref...)
	p.expect = p.data
	if sp.From > 0 || sp.To > 0 {
		lo := min((sp.From-1)*e1B, len(p.data))
		hi := min((sp.To-1)*e1B, len(p.data))
		if hi < lo {
			hi = lo
		}
		p.expect = p.data[lo:hi]
	}
	if sp.CorruptBlock > 0 {
		ks, err := parseKanzi(ref)
		if err != nil {
			return nil, fmt.Errorf("kzfmt: %v", err)
		}
		if sp.CorruptBlock > len(ks.Blocks) {
			return nil, fmt.Errorf("corrupt block %d of %d", sp.CorruptBlock, len(ks.Blocks))
		}
		if p.stream, err = damageStream(ref, ks, sp.CorruptBlock, sp.CorruptKind); err != nil {
			return nil, err
		}
		p.limit = (sp.CorruptBlock - 1) * e1B
	}
	return p, nil
}

// damageStream returns a copy of a valid stream in which block j (1-based) fails to decode:
// "payload": one bit of the entropy-coded data flipped (the task fails after it passed the token);
// "length": the block header declares 500000 bits, more than the stream holds (the task fails
// while it holds the shared stream); "truncate": the stream ends in the middle of block j.
func damageStream(stream []byte, ks *kzStream, j int, kind string) ([]byte, error) {
	b := ks.Blocks[j-1]
	switch kind {
	case "payload":
		out := append([]byte{}, stream...)
		flipBit(out, b.PayloadBit+b.PayloadBits-3)
		return out, nil
	case "length":
		w := &bitWriter{}
		w.copyBits(stream, 0, b.StartBit)
		w.bits(20-3, 5)
		w.bits(500000, 20)
		w.copyBits(stream, b.PayloadBit, len(stream)*8-b.PayloadBit)
		return w.b, nil
	case "truncate":
		return append([]byte{}, stream[:(b.PayloadBit+b.PayloadBits/2)/8]...), nil
	}
	return nil, fmt.Errorf("unknown damage kind %q", kind)
}

func flipBit(b []byte, bit int)       { b[bit>>3] ^= 0x80 >> uint(bit&7) }
func setBit(b []byte, bit int, v int) { b[bit>>3] = b[bit>>3]&^(0x80>>uint(bit&7)) | byte(v)<<uint(7-bit&7) }

// e1Obs folds an API call result into the scheduler's observation hash (cache mode key).
func e1Obs(n int, failed bool) {
	if s := vcoop.Active(); s != nil {
		v := uint64(n+2) * 2
		if failed {
			v++
		}
		s.ObsHash = (s.ObsHash ^ v) * 1099511628211
	}
}

// runEnc drives one Writer; returns the call log and sink.
func e1DriveEnc(sp *e1Spec, p *e1Prep, mo *e1Monitor, sk *memSink) (calls []callRec, panicked string) {
	defer func() {
		if r := recover(); r != nil {
			if _, ok := r.(*vcoop.Abort); ok {
				panic(r)
			}
			panicked = fmt.Sprint(r)
		}
	}()
	obs, _ := bitstream.NewDefaultOutputBitStream(sk, 65536)
	w, err := kio.NewWriterWithCtx2(&mobs{obs}, sp.params(sp.Jobs).ctx())
	if err != nil {
		panic("harness: writer construction failed: " + err.Error())
	}
	doWrite := func(b []byte) bool {
		mo.curCall = len(calls)
		n, err := w.Write(b)
		calls = append(calls, callRec{"Write", n, err != nil, false})
		e1Obs(n, err != nil)
		return err == nil
	}
	doClose := func() bool {
		mo.curCall = len(calls)
		err := w.Close()
		calls = append(calls, callRec{"Close", 0, err != nil, false})
		e1Obs(-1, err != nil)
		return err == nil
	}
	ok := true
	off := 0
	parts := sp.Parts
	if len(parts) == 0 {
		parts = []int{len(p.data)}
	}
	for _, n := range parts {
		if n > len(p.data)-off {
			n = len(p.data) - off
		}
		if !doWrite(p.data[off : off+n]) {
			ok = false
			break
		}
		off += n
	}
	if ok && off < len(p.data) {
		ok = doWrite(p.data[off:])
	}
	if ok {
		ok = doClose()
	}
	if !ok {
		// follow-up calls observe the state a failed call left behind
		doWrite(p.data[:min(len(p.data), e1B+1)])
		doClose()
		doClose()
	}
	return calls, ""
}

func e1DriveDec(sp *e1Spec, p *e1Prep, mo *e1Monitor) (out []byte, calls []callRec, panicked string) {
	defer func() {
		if r := recover(); r != nil {
			if _, ok := r.(*vcoop.Abort); ok {
				panic(r)
			}
			panicked = fmt.Sprint(r)
		}
	}()
	ibs, _ := bitstream.NewDefaultInputBitStream(newSrc(p.stream), 65536)
	ctx := map[string]any{"jobs": sp.Jobs}
	if sp.From > 0 {
		ctx["from"] = sp.From
	}
	if sp.To > 0 {
		ctx["to"] = sp.To
	}
	r, err := kio.NewReaderWithCtx2(&mibs{ibs}, ctx)
	if err != nil {
		panic("harness: reader construction failed: " + err.Error())
	}
	rb := sp.ReadBuf
	if rb == 0 {
		rb = e1B
	}
	buf := make([]byte, rb)
	post := 0
	for i := 0; i < len(p.stream)/rb+len(p.stream)+64; i++ {
		mo.curCall = len(calls)
		n, err := r.Read(buf)
		out = append(out, buf[:n]...)
		calls = append(calls, callRec{"Read", n, err != nil && err != io.EOF, err == io.EOF})
		e1Obs(n, err != nil)
		if err == io.EOF {
			break
		}
		if err != nil || post > 0 {
			post++
			if post > 3 {
				break
			}
		}
	}
	mo.curCall = len(calls)
	cerr := r.Close()
	calls = append(calls, callRec{"Close", 0, cerr != nil, false})
	return out, calls, ""
}

// e1RunOnce runs the scenario once under choice prefix `prefix`.
var e1Visited map[uint64]struct{}

// e1Directed, when non-nil, makes the next e1RunOnce a directed replay (thread ids, see vcoop.Sched.Directed)
var e1Directed []int

func e1RunOnce(sp *e1Spec, preps []*e1Prep, prefix []int, sleepInit map[int]bool, useSleep, keepEvents bool) *e1Exec {
	s := vcoop.New(prefix)
	s.Directed = e1Directed
	if sp.StallThread > 0 {
		s.ArmStall(sp.StallThread, sp.StallPolls)
		s.Directed = []int{sp.StallThread, sp.StallThread}
	}
	if len(sp.StallThreads) > 0 && e1Directed == nil {
		s.Directed = nil
		for _, w := range sp.StallThreads {
			s.ArmStall(w, sp.StallPolls)
			s.Directed = append(s.Directed, w, w)
		}
	}
	if sp.Mode == "cache" && !keepEvents {
		s.UseCache = true
		s.Visited = e1Visited
	}
	s.UseSleep = useSleep
	s.SleepInit = sleepInit
	if useSleep && sleepInit == nil {
		s.SleepInit = map[int]bool{}
	}
	s.FaultThread, s.FaultSite, s.FaultNth = sp.FaultThread, sp.FaultSite, sp.FaultNth
	mo := &e1Monitor{s: s, holder: -1, viols: map[string]string{}, lastLoadAt: map[int]int{}, keepEvents: keepEvents, faultCall: -1}
	ex := &e1Exec{sched: s, viols: mo.viols}
	type pipe struct {
		sp       *e1Spec
		p        *e1Prep
		mo       *e1Monitor
		sk       memSink
		calls    []callRec
		out      []byte
		panicked string
	}
	var pipes []*pipe
	if sp.Kind == "pair" {
		for i := range sp.Members {
			pipes = append(pipes, &pipe{sp: &sp.Members[i], p: preps[i], mo: &e1Monitor{s: s, holder: -1, viols: mo.viols, lastLoadAt: map[int]int{}, faultCall: -1}})
		}
	} else {
		pipes = []*pipe{{sp: sp, p: preps[0], mo: mo}}
		s.OnEvent = mo.onEvent // the protocol monitor applies to a single pipeline
	}
	drive := func(pp *pipe) {
		if pp.sp.Kind == "enc" {
			pp.calls, pp.panicked = e1DriveEnc(pp.sp, pp.p, pp.mo, &pp.sk)
		} else {
			pp.out, pp.calls, pp.panicked = e1DriveDec(pp.sp, pp.p, pp.mo)
		}
	}
	ab := s.Run(func() {
		for _, pp := range pipes[1:] {
			pp := pp
			vcoop.Go(func() { drive(pp) })
		}
		drive(pipes[0])
	})
	ex.events = mo.events
	ex.evs = mo.evs
	if ab != nil {
		switch {
		case strings.HasPrefix(ab.Reason, "deadlock"):
			mo.flag("deadlock", ab.Reason)
		case strings.HasPrefix(ab.Reason, "livelock"):
			mo.flag("livelock", ab.Reason)
		default:
			mo.flag("horizon", ab.Reason)
		}
		ex.outcome = "abort:" + strings.SplitN(ab.Reason, ":", 2)[0]
		return ex
	}
	var oc []string
	for i, pp := range pipes {
		pfx := ""
		if len(pipes) > 1 {
			pfx = fmt.Sprintf("%c:", 'A'+i)
		}
		if pp.panicked != "" {
			if strings.HasPrefix(pp.panicked, "harness:") {
				mo.flag("harness", pp.panicked)
			} else {
				mo.flag(pfx+"panic-escaped", "a panic escaped the API call: "+pp.panicked)
			}
			oc = append(oc, pfx+"panic")
			continue
		}
		if pp.sp.Kind == "enc" {
			e1JudgeEnc(pp.sp, pp.p, pp.mo, pp.calls, pp.sk.Bytes(), s.FaultFired, pfx)
			oc = append(oc, fmt.Sprintf("%s%s sink=%v", pfx, callsString(pp.calls), bytes.Equal(pp.sk.Bytes(), pp.p.ref)))
		} else {
			e1JudgeDec(pp.sp, pp.p, pp.mo, pp.calls, pp.out, s.FaultFired, pfx)
			oc = append(oc, fmt.Sprintf("%s%s out=%d prefix=%v", pfx, callsString(pp.calls), len(pp.out), isPrefix(pp.out, pp.p.expect)))
		}
	}
	ex.outcome = strings.Join(oc, " | ")
	return ex
}

func e1JudgeEnc(sp *e1Spec, p *e1Prep, mo *e1Monitor, calls []callRec, sink []byte, faultFired bool, pfx string) {
	anyErr := false
	lastCloseOK := false
	closeOKAfterFault := false
	for i, c := range calls {
		if c.Err {
			anyErr = true
		}
		if c.Name == "Close" {
			lastCloseOK = !c.Err
			if !c.Err && faultFired && i >= mo.faultCall {
				closeOKAfterFault = true
			}
		}
	}
	if !faultFired {
		if anyErr {
			mo.flag(pfx+"error-on-healthy-sink", "a call failed although nothing was injected: "+callsString(calls))
		} else if !bytes.Equal(sink, p.ref) {
			mo.flag(pfx+"bytes-differ", fmt.Sprintf("stream differs from the jobs=1 single-Write reference: %d vs %d bytes, first difference at byte %d (calls %s)", len(sink), len(p.ref), firstDiff(sink, p.ref), callsString(calls)))
		}
		return
	}
	// a fault was injected during call mo.faultCall
	if mo.faultCall >= 0 && mo.faultCall < len(calls) && !calls[mo.faultCall].Err {
		mo.flag(pfx+"fault-not-reported-by-call", fmt.Sprintf("a task failed during call #%d (%s) but that call returned success: %s", mo.faultCall, calls[mo.faultCall].Name, callsString(calls)))
	}
	if closeOKAfterFault && !bytes.Equal(sink, p.ref) {
		mo.flag(pfx+"close-ok-on-incomplete-stream", fmt.Sprintf("a write to the shared stream failed, yet a later Close reported success; sink has %d bytes, complete stream %d: %s", len(sink), len(p.ref), callsString(calls)))
	}
	_ = lastCloseOK
}

func e1JudgeDec(sp *e1Spec, p *e1Prep, mo *e1Monitor, calls []callRec, out []byte, faultFired bool, pfx string) {
	sawErr, sawEOF := false, false
	for _, c := range calls {
		if c.Name == "Read" {
			sawErr = sawErr || c.Err
			sawEOF = sawEOF || c.EOF
		}
	}
	if !isPrefix(out, p.expect) {
		mo.flag(pfx+"wrong-bytes", fmt.Sprintf("bytes returned by Read are not a prefix of the original: %d bytes returned, first difference at %d; calls %s", len(out), firstDiff(out, p.expect[:min(len(out), len(p.expect))]), callsString(calls)))
		return
	}
	if faultFired || p.limit >= 0 {
		if !sawErr {
			mo.flag(pfx+"failure-not-reported", "decoding of a block failed but no Read returned an error: "+callsString(calls))
		}
		if faultFired && mo.faultCall >= 0 && mo.faultCall < len(calls) && !calls[mo.faultCall].Err {
			mo.flag(pfx+"fault-not-reported-by-call", fmt.Sprintf("a task failed during call #%d but that call returned success: %s", mo.faultCall, callsString(calls)))
		}
		if p.limit >= 0 && len(out) > p.limit {
			mo.flag(pfx+"data-beyond-failed-block", fmt.Sprintf("block %d fails to decode, yet %d bytes were returned (limit %d): %s", sp.CorruptBlock, len(out), p.limit, callsString(calls)))
		}
		return
	}
	if sawErr {
		mo.flag(pfx+"error-on-valid-stream", "a Read failed on a valid stream: "+callsString(calls))
	} else if len(out) != len(p.expect) {
		mo.flag(pfx+"short-output", fmt.Sprintf("valid stream: %d of %d bytes delivered before EOF: %s", len(out), len(p.expect), callsString(calls)))
	} else if !sawEOF {
		mo.flag(pfx+"no-eof", "reader did not reach io.EOF: "+callsString(calls))
	}
}

func e1PrepareAll(sp *e1Spec) ([]*e1Prep, error) {
	if sp.Kind != "pair" {
		p, err := e1Prepare(sp, 0)
		return []*e1Prep{p}, err
	}
	var out []*e1Prep
	for i := range sp.Members {
		p, err := e1Prepare(&sp.Members[i], byte(i*0x5A))
		if err != nil {
			return nil, err
		}
		out = append(out, p)
	}
	return out, nil
}

// ---- explorer ----

type e1Explorer struct {
	sp       *e1Spec
	preps    []*e1Prep
	res      *e1Result
	states   map[uint64]struct{}
	trans    map[uint64]struct{}
	deadline time.Time
	oracle   map[string]bool
	stop     bool
}

func (x *e1Explorer) wants(tag string) bool {
	if len(x.oracle) == 0 {
		return true
	}
	if i := strings.Index(tag, ":"); i >= 0 && i <= 2 {
		tag = tag[i+1:]
	}
	return x.oracle[tag] || x.oracle["*"]
}

func (x *e1Explorer) explore(prefix []int, bound int, sleepInit map[int]bool) {
	if x.stop {
		return
	}
	if time.Now().After(x.deadline) {
		x.res.Capped = "deadline"
		x.stop = true
		return
	}
	if x.sp.MaxExecs > 0 && x.res.Execs >= x.sp.MaxExecs {
		x.res.Capped = "max_execs"
		x.stop = true
		return
	}
	useSleep := x.sp.Mode == "sleep"
	ex := e1RunOnce(x.sp, x.preps, prefix, sleepInit, useSleep, x.sp.ModelDir != "")
	s := ex.sched
	if x.sp.ModelDir != "" && !s.Redundant && s.Aborted == nil {
		x.conform(ex)
	}
	x.res.Points += len(s.Points)
	if len(s.Points) > x.res.MaxPoints {
		x.res.MaxPoints = len(s.Points)
	}
	for _, pt := range s.Points {
		x.states[pt.StateHash] = struct{}{}
		x.trans[pt.StateHash*31+uint64(pt.Thread)*131+uint64(pt.Kind)] = struct{}{}
	}
	if s.Redundant {
		x.res.Redundant++
	} else {
		x.res.Execs++
		x.res.Outcomes[ex.outcome]++
		for tag, detail := range ex.viols {
			if tag == "horizon" {
				x.res.Capped = "horizon"
				continue
			}
			if tag == "harness" {
				x.res.HarnessErr = detail
				x.stop = true
				continue
			}
			if !x.wants(tag) {
				x.res.OtherTags[tag]++
				continue
			}
			if len(x.res.Viols) < 4 {
				dup := false
				for _, v := range x.res.Viols {
					if v.Tag == tag {
						dup = true
					}
				}
				if !dup {
					ch := make([]int, len(s.Points))
					for i, pt := range s.Points {
						ch[i] = pt.Chosen
					}
					x.res.Viols = append(x.res.Viols, e1Viol{Tag: tag, Detail: detail, Choices: ch})
				}
			}
			if ex.sched.Aborted != nil {
				// aborted executions leak parked goroutines: stop this scenario at the first one
				x.stop = true
			}
		}
		if len(x.res.Viols) >= 3 {
			x.stop = true
		}
	}
	if s.Redundant || s.Aborted != nil {
		return
	}
	pts := s.Points
	pre := 0
	preAt := make([]int, len(pts))
	for i, pt := range pts {
		preAt[i] = pre
		if pt.RunningEnabled && pt.Chosen != 0 {
			pre++
		}
	}
	last := len(pts)
	if s.MergeAt >= 0 {
		last = s.MergeAt
		x.res.Merged++
	}
	for i := len(prefix); i < last; i++ {
		pt := pts[i]
		if pt.Enabled < 2 {
			continue
		}
		var done map[int]bool
		if useSleep {
			done = map[int]bool{}
			for k := range pt.SleepBefore {
				done[k] = true
			}
			done[pt.Pend[pt.Chosen].Thread] = true
		}
		for alt := 0; alt < pt.Enabled; alt++ {
			if alt == pt.Chosen {
				continue
			}
			if !useSleep {
				cost := preAt[i]
				if pt.RunningEnabled && alt != 0 {
					cost++
				}
				if bound >= 0 && cost > bound {
					continue
				}
			}
			var si map[int]bool
			if useSleep {
				if done[pt.Pend[alt].Thread] {
					continue
				}
				si = map[int]bool{}
				for j, q := range pt.Pend {
					if j != alt && done[q.Thread] && vcoop.Independent(q, pt.Pend[alt]) {
						si[q.Thread] = true
					}
				}
				done[pt.Pend[alt].Thread] = true
			}
			np := make([]int, i+1)
			for j := 0; j < i; j++ {
				np[j] = pts[j].Chosen
			}
			np[i] = alt
			x.explore(np, bound, si)
			if x.stop {
				return
			}
		}
	}
}

func e1Explore(sp *e1Spec) *e1Result {
	t0 := time.Now()
	res := &e1Result{Spec: *sp, Outcomes: map[string]int{}, OtherTags: map[string]int{}, BoundDone: -2}
	preps, err := e1PrepareAll(sp)
	if err != nil {
		res.HarnessErr = err.Error()
		return res
	}
	secs := sp.MaxSecs
	if secs == 0 {
		secs = 120
	}
	x := &e1Explorer{sp: sp, preps: preps, res: res, states: map[uint64]struct{}{}, trans: map[uint64]struct{}{}, deadline: t0.Add(time.Duration(secs) * time.Second), oracle: map[string]bool{}}
	for _, o := range sp.Oracles {
		x.oracle[o] = true
	}
	if sp.Mode == "stall" {
		ex := e1RunOnce(sp, preps, nil, nil, false, false)
		res.Execs, res.Points, res.MaxPoints = 1, len(ex.sched.Points), len(ex.sched.Points)
		res.Outcomes[ex.outcome]++
		if ex.sched.StallUsed == 0 {
			res.Capped = "the stalled thread never waited in a spin loop (no repeated load of one atomic from one site): nothing to stall"
		}
		for tag, detail := range ex.viols {
			if tag == "harness" {
				res.HarnessErr = detail
				continue
			}
			if !x.wants(tag) {
				res.OtherTags[tag]++
				continue
			}
			ch := make([]int, len(ex.sched.Points))
			for i, pt := range ex.sched.Points {
				ch[i] = pt.Chosen
			}
			res.Viols = append(res.Viols, e1Viol{Tag: tag, Detail: fmt.Sprintf("%s [after task thread T%d polled the token %d times while its predecessor stood still]", detail, sp.StallThread, ex.sched.StallUsed), Choices: ch})
		}
		res.BoundDone = 0
		res.WallS = time.Since(t0).Seconds()
		return res
	}
	if sp.Mode == "sleep" || sp.Mode == "cache" {
		e1Visited = map[uint64]struct{}{}
		x.explore(nil, -1, nil)
		if !x.stop {
			res.BoundDone = -1
		}
	} else {
		// the bound semantics of the recursive exploration is "at most Bound preemptions"
		x.explore(nil, sp.Bound, nil)
		if !x.stop {
			res.BoundDone = sp.Bound
		}
	}
	res.States = len(x.states)
	res.Transitions = len(x.trans)
	res.WallS = time.Since(t0).Seconds()
	return res
}

// e1Replay re-runs one schedule twice and checks the observations are identical.
func e1Replay(sp *e1Spec, choices []int) (*e1Exec, *e1Exec, error) {
	preps, err := e1PrepareAll(sp)
	if err != nil {
		return nil, nil, err
	}
	a := e1RunOnce(sp, preps, choices, nil, false, true)
	b := e1RunOnce(sp, preps, choices, nil, false, true)
	return a, b, nil
}

// ---- worker process plumbing ----

func init() {
	workerCmds["e1worker"] = func(args []string) {
		var sp e1Spec
		if err := json.Unmarshal([]byte(args[0]), &sp); err != nil {
			fmt.Println(`{"harness_error":"bad spec"}`)
			os.Exit(2)
		}
		res := e1Explore(&sp)
		out, _ := json.Marshal(res)
		os.Stdout.Write(out)
	}
}

type e1Case struct {
	Spec    e1Spec `json:"spec"`
	Tag     string `json:"tag"`
	Choices []int  `json:"choices"`
}

// family used for replay files of schedule violations
var famE1 = NewFamily("E1.schedule", func(c e1Case) (*Fail, bool) {
	sp := c.Spec
	a, b, err := e1Replay(&sp, c.Choices)
	if err != nil {
		return failf("harness", "%v", err), true
	}
	if a.outcome != b.outcome || len(a.viols) != len(b.viols) {
		return failf("harness-nondeterminism", "same schedule, different observations: %q vs %q", a.outcome, b.outcome), true
	}
	if d, ok := a.viols[c.Tag]; ok {
		return failf(c.Tag+" "+sp.Name, "%s | events: %s", d, strings.Join(a.events, " ")), true
	}
	for tag, d := range a.viols {
		return failf(tag+" "+sp.Name, "%s", d), true
	}
	return nil, true
})

// e1RunAll runs the scenarios in parallel worker processes and folds results into c.
// fpOf maps (scenario, tag) to the fingerprint.
func e1RunAll(c *Ctx, specs []e1Spec, workers int) []*e1Result {
	if workers <= 0 {
		workers = 16
	}
	exe, _ := os.Executable()
	if info, err := os.ReadFile(exe + ".info"); err == nil {
		c.Extra("instrumentation", strings.TrimSpace(string(info)))
		if !strings.Contains(string(info), "uncontrolled=0") {
			c.Capped("the instrumented file uses constructs the scheduler cannot control (channels / select / timers): interleavings around them are not explored (" + strings.TrimSpace(string(info)) + ")")
		}
		if strings.Contains(string(info), "go=0 ") {
			c.Capped("no go statement was found in the instrumented file: the concurrent tasks are started elsewhere and are not under the scheduler")
		}
	}
	uncontrolled := false
	if info, err := os.ReadFile(exe + ".info"); err == nil && !strings.Contains(string(info), "uncontrolled=0") {
		uncontrolled = true
	}
	results := make([]*e1Result, len(specs))
	var wg sync.WaitGroup
	sem := make(chan struct{}, workers)
	for i := range specs {
		wg.Add(1)
		sem <- struct{}{}
		go func(i int) {
			defer wg.Done()
			defer func() { <-sem }()
			sp := specs[i]
			js, _ := json.Marshal(sp)
			secs := sp.MaxSecs
			if secs == 0 {
				secs = 120
			}
			cmd := exec.Command(exe, "e1worker", string(js))
			cmd.Env = append(os.Environ(), "GOMAXPROCS=1")
			var stdout, stderr bytes.Buffer
			cmd.Stdout, cmd.Stderr = &stdout, &stderr
			done := make(chan error, 1)
			cmd.Start()
			go func() { done <- cmd.Wait() }()
			var werr error
			select {
			case werr = <-done:
			case <-time.After(time.Duration(secs+90) * time.Second):
				cmd.Process.Kill()
				<-done
				results[i] = &e1Result{Spec: sp, Capped: "worker watchdog: a controlled thread neither reached a scheduling point nor finished (uncontrolled synchronisation or unbounded computation)", Outcomes: map[string]int{}}
				return
			}
			var r e1Result
			if err := json.Unmarshal(stdout.Bytes(), &r); err != nil || werr != nil {
				tail := stderr.String()
				if len(tail) > 1500 {
					tail = tail[len(tail)-1500:]
				}
				if uncontrolled && (strings.Contains(stderr.String(), "all goroutines are asleep") || strings.Contains(stderr.String(), "fatal error")) {
					// the tree synchronises through constructs the scheduler does not own (channels,
					// timers): a controlled thread blocked for real. Not a verdict of any kind.
					results[i] = &e1Result{Spec: sp, Capped: "uncontrolled synchronisation in the code under test (channel / select / timer): the exploration of this scenario was abandoned", Outcomes: map[string]int{}}
					return
				}
				results[i] = &e1Result{Spec: sp, HarnessErr: fmt.Sprintf("worker failed (%v): %s %s", werr, trunc(stdout.String(), 300), tail), Outcomes: map[string]int{}}
				return
			}
			results[i] = &r
		}(i)
	}
	wg.Wait()
	for _, r := range results {
		c.mu.Lock()
		c.evals += int64(r.Execs)
		c.mu.Unlock()
		c.AddStates(int64(r.States), int64(r.Transitions), int64(r.Execs))
		c.AddExtra("scheduling_points", int64(r.Points))
		c.AddExtra("redundant_executions_skipped_by_sleep_sets", int64(r.Redundant))
		// distinct non-trivial: executions of scenarios with >= 2 task threads (measured: every
		// execution counted is a distinct choice sequence by construction of the DFS)
		if r.Spec.Jobs >= 2 && r.MaxPoints > 0 {
			c.mu.Lock()
			c.nontrivial += int64(r.Execs)
			c.mu.Unlock()
		}
		if r.HarnessErr != "" {
			c.HarnessError(r.Spec.Name + ": " + r.HarnessErr)
		}
		if r.Capped != "" {
			c.Capped(r.Spec.Name + ": " + r.Capped)
		}
		for _, v := range r.Viols {
			fp := v.Tag + " " + r.Spec.Name
			c.Violate("E1.schedule", e1Case{Spec: r.Spec, Tag: v.Tag, Choices: v.Choices}, &Fail{FP: fp, Detail: v.Detail})
		}
	}
	return results
}

func e1Summary(c *Ctx, results []*e1Result) {
	type row struct {
		Scenario    string         `json:"scenario"`
		Mode        string         `json:"mode"`
		BoundDone   any            `json:"completed"`
		Execs       int            `json:"executions"`
		Redundant   int            `json:"redundant"`
		States      int            `json:"states"`
		Transitions int            `json:"transitions"`
		Outcomes    map[string]int `json:"distinct_outcomes"`
		Capped      string         `json:"capped,omitempty"`
		WallS       float64        `json:"wall_s"`
	}
	var rows []row
	for _, r := range results {
		bd := any("all interleavings (sleep sets, no preemption bound)")
		if r.Spec.Mode == "stall" {
			bd = fmt.Sprintf("one directed execution: task thread T%d polls %d times while its predecessor stands still", r.Spec.StallThread, r.Spec.StallPolls)
		} else if r.Spec.Mode == "cache" {
			bd = "all interleavings (state-caching DFS, no preemption bound)"
		} else if r.Spec.Mode != "sleep" {
			bd = fmt.Sprintf("all interleavings with <= %d preemptions", r.BoundDone)
			if r.Spec.Bound < 0 {
				bd = "all interleavings (plain DFS, no bound)"
			}
		}
		if r.BoundDone == -2 {
			bd = "NOT COMPLETED"
		}
		oc := r.Outcomes
		if len(oc) > 6 {
			keys := make([]string, 0, len(oc))
			for k := range oc {
				keys = append(keys, k)
			}
			sort.Strings(keys)
			oc = map[string]int{}
			for _, k := range keys[:6] {
				oc[k] = r.Outcomes[k]
			}
			oc["(more)"] = len(keys) - 6
		}
		rows = append(rows, row{r.Spec.Name, r.Spec.Mode, bd, r.Execs, r.Redundant, r.States, r.Transitions, oc, r.Capped, r.WallS})
	}
	c.Extra("scenarios", rows)
	for i, r := range results {
		if i < 4 {
			c.Sample(map[string]any{"scenario": r.Spec, "executions": r.Execs, "outcomes": r.Outcomes})
		}
	}
}
