package main

// C11 Block-range decoding returns exactly the requested slice; blocks outside the range are
// skipped without being decoded and without disturbing the ones inside.

import (
	"bytes"
	"fmt"
	"sync"
	"time"

	kanzi "github.com/flanglet/kanzi-go/v2"
	kio "github.com/flanglet/kanzi-go/v2/io"
)

type rangeCase struct {
	P       Params `json:"params"`
	Blocks  int    `json:"blocks"`
	Tail    int    `json:"tail"` // bytes in the last block (0 = full)
	Jobs    uint   `json:"dec_jobs"`
	RB      int    `json:"read_buf"`
	Corrupt bool   `json:"corrupt_outside"` // flip a bit in the payload of every block outside the range
	// From/To: 0,0 = enumerate all ranges inside the case
	From int `json:"from,omitempty"`
	To   int `json:"to,omitempty"`
}

func (r rangeCase) String() string {
	return fmt.Sprintf("%s|%d|%d|%d|%d|%v|%d|%d", r.P, r.Blocks, r.Tail, r.Jobs, r.RB, r.Corrupt, r.From, r.To)
}

type evtRecorder struct {
	mu  sync.Mutex
	ids []int
}

func (e *evtRecorder) ProcessEvent(evt *kanzi.Event) {
	if evt.Type() == kanzi.EVT_BEFORE_ENTROPY {
		e.mu.Lock()
		e.ids = append(e.ids, evt.ID())
		e.mu.Unlock()
	}
}

var c11ctx *Ctx

func runRange(r rangeCase) (*Fail, bool) {
	B := int(r.P.Block)
	n := r.Blocks * B
	if r.Tail > 0 {
		n = (r.Blocks-1)*B + r.Tail
	}
	data := shape("text", n)
	stream, where, err := compress(data, r.P)
	if err != nil {
		return failf("harness-compress", "%s %v", where, err), false
	}
	ks, err := parseKanziOpt(stream, r.P.Headerless, int(r.P.Checksum))
	if err != nil || len(ks.Blocks) != r.Blocks {
		return failf("harness-kzfmt", "parse: %v blocks=%d want %d", err, len(ks.Blocks), r.Blocks), false
	}
	cls := fmt.Sprintf("codec=%s/%s jobs=%s corrupt-outside=%v", r.P.Transform, r.P.Entropy, jobsClass(r.Jobs), r.Corrupt)
	one := func(from, to int) *Fail {
		if c11ctx != nil {
			c11ctx.Count(fmt.Sprintf("%s|%d|%d", r, from, to), true)
		}
		in := stream
		if r.Corrupt {
			in = append([]byte{}, stream...)
			for i, b := range ks.Blocks {
				id := i + 1
				if id < from || id >= to {
					// one flipped bit in the entropy-coded data (after the checksum field)
					flipBit(in, b.DataBit+(b.PayloadBit+b.PayloadBits-b.DataBit)/2)
				}
			}
		}
		pp := r.P
		ctx := readerCtx(r.Jobs, &pp)
		ctx["from"], ctx["to"] = from, to
		rd, err := kio.NewReaderWithCtx(newSrc(in), ctx)
		if err != nil {
			return failf("range-rejected "+cls, "reader construction with from=%d to=%d: %v", from, to, err)
		}
		rec := &evtRecorder{}
		rd.AddListener(rec)
		res := drain(rd, r.RB, 2)
		rd.Close()
		lo := min((from-1)*B, len(data))
		hi := min((to-1)*B, len(data))
		if hi < lo {
			hi = lo
		}
		want := data[lo:hi]
		if res.Err != nil {
			return failf("range-decode-error "+cls, "%s range [%d,%d): error %v after %d bytes (want %d)", r, from, to, res.Err, len(res.Out), len(want))
		}
		if !bytes.Equal(res.Out, want) {
			return failf("range-wrong-slice "+cls, "%s range [%d,%d): got %d bytes, want %d (original[%d:%d]); first difference at %d", r, from, to, len(res.Out), len(want), lo, hi, firstDiff(res.Out, want))
		}
		if !res.EOF {
			return failf("range-no-eof "+cls, "%s range [%d,%d): no io.EOF", r, from, to)
		}
		for _, id := range rec.ids {
			if id < from || id >= to {
				return failf("block-outside-range-decoded "+cls, "%s range [%d,%d): block %d reached the entropy decoding stage", r, from, to, id)
			}
		}
		return nil
	}
	if r.From != 0 || r.To != 0 {
		return one(r.From, r.To), true
	}
	for from := 1; from <= r.Blocks+3; from++ {
		for to := from; to <= r.Blocks+3; to++ {
			if f := one(from, to); f != nil {
				f.Detail += fmt.Sprintf(" [replay: from=%d to=%d]", from, to)
				return f, true
			}
		}
	}
	return nil, true
}

var famRange = NewFamily("C11.range", runRange)

func init() {
	register("C11", "exploration", func(c *Ctx) {
		c11ctx = c
		c.Rule("streams of 1..12 blocks (B=1024; NONE/NONE, LZ/HUFFMAN, BWT/ANS0; checksum 0/32; last block partial or full) x ALL 1 <= from <= to <= blocks+3 x reader jobs 1..8 x read buffer {700, B, 3B+1}; each range also with a flipped payload bit in every block outside the range; a listener records which blocks reach entropy decoding. Plus streams of 64, 70 and 130 blocks (beyond the 63-block cap of the header hint), size in the header or not, boundary ranges around blocks 63..66 and the end, jobs 1,2,4,64. Plus E1: all interleavings of the decoding tasks for ranges that fall inside, on and across a batch (jobs 2,3). Oracle: exactly original[(from-1)B : min((to-1)B,len)], then io.EOF, no error; no block outside the range reaches the entropy stage. One evaluation = one (stream, range) decode")
		var specs []e1Spec
		for _, ft := range [][2]int{{2, 4}, {1, 2}, {3, 3}, {4, 9}, {5, 6}, {6, 8}, {1, 6}} {
			for _, jobs := range []uint{2, 3} {
				s := decSpec(fmt.Sprintf("dec j%d 5blk range [%d,%d)", jobs, ft[0], ft[1]), jobs, 5, 0, "sleep", -1)
				if jobs == 3 && !c.Thorough() {
					s.Mode, s.Bound = "bounded", 2
				}
				s.From, s.To = ft[0], ft[1]
				s.Oracles = c05Oracles
				s.MaxSecs = pick(c, 60, 600)
				specs = append(specs, s)
			}
		}
		results := e1RunAll(c, specs, 16)
		e1Summary(c, results)
		famRange.Timeout = 120 * time.Minute // one case = every range of one stream
		famRange.Each(c, 0, func(emit func(rangeCase)) {
			// headerless streams: the reader is told the parameters, the range must still apply
			for _, cd := range [][2]string{{"NONE", "NONE"}, {"LZ", "HUFFMAN"}} {
				for _, ck := range []uint{0, 64} {
					for _, j := range []uint{1, 2, 3, 8} {
						for _, hint := range []int64{-1, 5*1024 - 724} {
							emit(rangeCase{P: Params{cd[0], cd[1], 1024, 2, ck, hint, true, false}, Blocks: 5, Tail: 300, Jobs: j, RB: 1024})
						}
					}
				}
			}
			// long streams (more blocks than the 63-block cap of the header's block-count hint), with and
			// without the size in the header: boundary ranges around block 63/64 and around the end
			for _, nb := range []int{64, 70, 130} {
				for _, hint := range []int64{-1, int64(nb*1024 - 724)} {
					for _, j := range []uint{1, 2, 4, 64} {
						froms := []int{1, 2, 62, 63, 64, 65, 66, nb - 1, nb, nb + 1, nb + 2}
						for _, from := range froms {
							for _, to := range []int{from, from + 1, from + 3, 64, 65, nb, nb + 1, nb + 3} {
								if to < from {
									continue
								}
								emit(rangeCase{P: Params{"NONE", "NONE", 1024, 3, 32, hint, false, false}, Blocks: nb, Tail: 300, Jobs: j, RB: 4096, From: from, To: to})
							}
						}
					}
				}
			}
			for _, cd := range [][2]string{{"NONE", "NONE"}, {"LZ", "HUFFMAN"}, {"BWT", "ANS0"}} {
				for _, ck := range []uint{0, 32} {
					for nb := 1; nb <= 12; nb++ {
						if !c.Thorough() && nb > 7 && nb != 12 {
							continue
						}
						for _, tail := range []int{0, 300} {
							for _, j := range []uint{1, 2, 3, 4, 5, 6, 7, 8} {
								if !c.Thorough() && (j == 5 || j == 6 || j == 7) {
									continue
								}
								for _, rb := range []int{700, 1024, 3*1024 + 1} {
									if !c.Thorough() && rb == 700 && ck == 0 {
										continue
									}
									emit(rangeCase{P: Params{cd[0], cd[1], 1024, 2, ck, -1, false, false}, Blocks: nb, Tail: tail, Jobs: j, RB: rb})
									emit(rangeCase{P: Params{cd[0], cd[1], 1024, 2, ck, -1, false, false}, Blocks: nb, Tail: tail, Jobs: j, RB: rb, Corrupt: true})
								}
							}
						}
					}
				}
			}
		})
	})
}
