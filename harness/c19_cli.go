package main

// C19 Command-line tool: tree round trip and file safety.
// E4: complete products of (tree x options x mode) driven through the real binary built from the
// current tree. E7: for --rm runs the syscall history is recorded with strace and EVERY PREFIX of
// it (= every point at which the process may be killed) is materialised as a directory state on
// which the invariant "each source still exists intact or its output decodes to it" is evaluated
// with the real binary as decoder; real SIGKILL injections validate the modelled states.

import (
	"bytes"
	"crypto/sha256"
	"fmt"
	"os"
	"os/exec"
	"path/filepath"
	"regexp"
	"sort"
	"strconv"
	"strings"
	"sync"
	"time"
)

var cliBin string

func buildCLI() error {
	out := filepath.Join(verifRoot, "build", fmt.Sprintf("kanzi-cli.%d", os.Getpid()))
	cmd := exec.Command("go", "build", "-o", out, "./app")
	cmd.Dir = filepath.Join(repoRoot, "v2")
	cmd.Env = append(os.Environ(), "GOFLAGS=-mod=mod", "GOPROXY=off")
	if b, err := cmd.CombinedOutput(); err != nil {
		return fmt.Errorf("building the CLI failed: %v: %s", err, trunc(string(b), 600))
	}
	cliBin = out
	return nil
}

type treeFile struct {
	Path  string
	Shape string
	Len   int
}

func treeSpec(name string) []treeFile {
	switch name {
	case "flat":
		return []treeFile{{"a.txt", "text", 3000}, {"b.bin", "random", 5000}, {"c.dna", "dna", 20000}}
	case "nested":
		return []treeFile{{"a.txt", "text", 3000}, {"empty", "text", 0}, {".dot", "xml", 100}, {"sub/c.txt", "text", 70000}, {"sub/deep/d.dat", "dna", 20000}, {"sub/deep/e.wav", "wav16s", 30000}, {"sub2/f.exe", "elf", 9000}, {"sub2/utf.txt", "utf8-dense", 66000}}
	case "large":
		return []treeFile{{"big/one.txt", "text", 300 * 1024}, {"big/two.bin", "lzbound", 3 << 20}, {"s.txt", "crlf", 100}, {"z/empty", "text", 0}}
	case "single":
		return []treeFile{{"only.txt", "text", 12345}}
	case "names":
		// awkward names: a regular file that already ends in .knz, several dots, a space, non-ASCII, a
		// directory ending in .knz, hidden directory and file, an exact multiple of the default block size
		return []treeFile{{"x.knz", "text", 2000}, {"b.c.d", "text", 1500}, {"sp ace.txt", "xml", 900}, {"\u00fcn\u00ef.txt", "text", 700},
			{"d.knz/inner.txt", "dna", 3000}, {".hidden/.h2", "text", 64}, {"mult.bin", "random", 65536}, {"UPPER.TXT", "crlf", 333}}
	}
	return nil
}

func makeTree(root, name string) (map[string][]byte, error) {
	files := map[string][]byte{}
	for _, f := range treeSpec(name) {
		p := filepath.Join(root, f.Path)
		if err := os.MkdirAll(filepath.Dir(p), 0o755); err != nil {
			return nil, err
		}
		d := shape(f.Shape, f.Len)
		if err := os.WriteFile(p, d, 0o644); err != nil {
			return nil, err
		}
		files[f.Path] = d
	}
	if name == "nested" {
		os.MkdirAll(filepath.Join(root, "emptydir"), 0o755)
	}
	return files, nil
}

func readTree(root string) map[string][]byte {
	out := map[string][]byte{}
	filepath.Walk(root, func(p string, info os.FileInfo, err error) error {
		if err != nil || info.IsDir() {
			return nil
		}
		rel, _ := filepath.Rel(root, p)
		d, _ := os.ReadFile(p)
		out[rel] = d
		return nil
	})
	return out
}

func runCLI(stdin []byte, args ...string) (int, string, []byte) {
	cmd := exec.Command(cliBin, args...)
	var so, se bytes.Buffer
	cmd.Stdout, cmd.Stderr = &so, &se
	if stdin != nil {
		cmd.Stdin = bytes.NewReader(stdin)
	}
	done := make(chan error, 1)
	cmd.Start()
	go func() { done <- cmd.Wait() }()
	select {
	case err := <-done:
		code := 0
		if err != nil {
			code = -1
			if ee, ok := err.(*exec.ExitError); ok {
				code = ee.ExitCode()
			}
		}
		return code, trunc(se.String()+so.String(), 400), so.Bytes()
	case <-time.After(10 * time.Minute):
		cmd.Process.Kill()
		return -2, "timeout (10 min)", nil
	}
}

type cliCase struct {
	Tree string   `json:"tree"`
	Mode string   `json:"mode"` // inplace-rm | inplace | outdir | file | stdio
	Opts []string `json:"opts"`
	Jobs int      `json:"jobs"`
}

func (c cliCase) String() string {
	return fmt.Sprintf("%s|%s|%v|%d", c.Tree, c.Mode, c.Opts, c.Jobs)
}

func scratch() string {
	d, _ := os.MkdirTemp(filepath.Join(verifRoot, "build"), "c19-")
	return d
}

func optClass(opts []string) string { return strings.Join(opts, " ") }

func runCliCase(c cliCase) (*Fail, bool) {
	dir := scratch()
	defer os.RemoveAll(dir)
	src := filepath.Join(dir, "src")
	orig, err := makeTree(src, c.Tree)
	if err != nil {
		return failf("harness", "%v", err), false
	}
	cls := fmt.Sprintf("mode=%s opts=[%s]", c.Mode, optClass(c.Opts))
	j := strconv.Itoa(c.Jobs)
	cmp := func(got map[string][]byte, what string) *Fail {
		for p, d := range orig {
			g, ok := got[p]
			if !ok {
				return failf("file-not-restored "+cls, "%s: %s missing after %s", c, p, what)
			}
			if !bytes.Equal(g, d) {
				return failf("file-restored-differently "+cls, "%s: %s differs at byte %d after %s", c, p, firstDiff(g, d), what)
			}
		}
		return nil
	}
	switch c.Mode {
	case "inplace-rm", "inplace":
		args := append([]string{"-c", "-i", src, "-v", "0", "-j", j}, c.Opts...)
		if c.Mode == "inplace-rm" {
			args = append(args, "--rm")
		}
		if code, msg, _ := runCLI(nil, args...); code != 0 {
			return failf("compress-exit-status "+cls, "%s: compression exited with %d: %s", c, code, msg), true
		}
		after := readTree(src)
		if c.Mode == "inplace-rm" {
			for p := range orig {
				if _, still := after[p]; still {
					return failf("source-not-removed "+cls, "%s: %s still exists after --rm", c, p), true
				}
			}
			if code, msg, _ := runCLI(nil, "-d", "-i", src, "-v", "0", "-j", j, "--rm"); code != 0 {
				return failf("decompress-exit-status "+cls, "%s: decompression exited with %d: %s", c, code, msg), true
			}
			got := readTree(src)
			if f := cmp(got, "compress --rm; decompress --rm"); f != nil {
				return f, true
			}
			if len(got) != len(orig) {
				return failf("extra-files-left "+cls, "%s: %d files after the round trip, %d before", c, len(got), len(orig)), true
			}
		} else {
			// sources must be untouched; decompress the .knz files into a second directory
			if f := cmp(after, "compress (sources must stay)"); f != nil {
				return f, true
			}
			out := filepath.Join(dir, "out")
			os.MkdirAll(out, 0o755)
			for p := range orig {
				k := filepath.Join(src, p+".knz")
				o := filepath.Join(out, p)
				os.MkdirAll(filepath.Dir(o), 0o755)
				if code, msg, _ := runCLI(nil, "-d", "-i", k, "-o", o, "-v", "0", "-j", j); code != 0 {
					return failf("decompress-exit-status "+cls, "%s: decompression of %s exited with %d: %s", c, p, code, msg), true
				}
			}
			if f := cmp(readTree(out), "compress; decompress file by file"); f != nil {
				return f, true
			}
		}
	case "outdir":
		o1, o2 := filepath.Join(dir, "o1"), filepath.Join(dir, "o2")
		os.MkdirAll(o1, 0o755)
		os.MkdirAll(o2, 0o755)
		args := append([]string{"-c", "-i", src, "-o", o1, "-v", "0", "-j", j}, c.Opts...)
		if code, msg, _ := runCLI(nil, args...); code != 0 {
			return failf("compress-exit-status "+cls, "%s: compression into an output directory exited with %d: %s", c, code, msg), true
		}
		if f := cmp(readTree(src), "compress into another directory (sources must stay)"); f != nil {
			return f, true
		}
		if code, msg, _ := runCLI(nil, "-d", "-i", o1, "-o", o2, "-v", "0", "-j", j); code != 0 {
			return failf("decompress-exit-status "+cls, "%s: decompression into an output directory exited with %d: %s", c, code, msg), true
		}
		if f := cmp(readTree(o2), "compress -o dir; decompress -o dir"); f != nil {
			return f, true
		}
	case "file":
		for p, d := range orig {
			in := filepath.Join(src, p)
			k := filepath.Join(dir, "x.knz")
			o := filepath.Join(dir, "x.out")
			os.Remove(k)
			os.Remove(o)
			args := append([]string{"-c", "-i", in, "-o", k, "-v", "0", "-j", j}, c.Opts...)
			if code, msg, _ := runCLI(nil, args...); code != 0 {
				return failf("compress-exit-status "+cls, "%s: %s: exit %d: %s", c, p, code, msg), true
			}
			if code, msg, _ := runCLI(nil, "-d", "-i", k, "-o", o, "-v", "0", "-j", j); code != 0 {
				return failf("decompress-exit-status "+cls, "%s: %s: exit %d: %s", c, p, code, msg), true
			}
			g, _ := os.ReadFile(o)
			if !bytes.Equal(g, d) {
				return failf("file-restored-differently "+cls, "%s: %s differs at %d", c, p, firstDiff(g, d)), true
			}
		}
	case "stdio":
		for p, d := range orig {
			args := append([]string{"-c", "-o", "stdout", "-v", "0", "-j", j}, c.Opts...)
			code, msg, k := runCLI(d, args...)
			if code != 0 {
				return failf("compress-exit-status "+cls, "%s: %s via stdin: exit %d: %s", c, p, code, msg), true
			}
			code, msg, g := runCLI(k, "-d", "-i", "stdin", "-o", "stdout", "-v", "0", "-j", j)
			if code != 0 {
				return failf("decompress-exit-status "+cls, "%s: %s via stdin: exit %d: %s", c, p, code, msg), true
			}
			if !bytes.Equal(g, d) {
				return failf("file-restored-differently "+cls, "%s: %s via pipes differs at %d (%d vs %d bytes)", c, p, firstDiff(g, d), len(g), len(d)), true
			}
		}
	}
	return nil, true
}

var famCli = NewFamily("C19.roundtrip", runCliCase)

// ---- safety cases ----

type safeCase struct {
	Kind string `json:"kind"`
}

func (s safeCase) String() string { return s.Kind }

func sha(b []byte) string { h := sha256.Sum256(b); return fmt.Sprintf("%x", h[:8]) }

var famSafe = NewFamily("C19.safety", func(s safeCase) (*Fail, bool) {
	dir := scratch()
	defer os.RemoveAll(dir)
	in := filepath.Join(dir, "in.txt")
	data := shape("text", 40000)
	os.WriteFile(in, data, 0o644)
	intact := func(what string) *Fail {
		g, err := os.ReadFile(in)
		if err != nil || !bytes.Equal(g, data) {
			return failf("input-modified "+s.Kind, "%s: the input file was modified or removed (%v)", what, err)
		}
		return nil
	}
	switch s.Kind {
	case "existing-output-no-force", "existing-output-no-force-decompress":
		out := filepath.Join(dir, "in.txt.knz")
		args := []string{"-c", "-i", in, "-v", "0"}
		if s.Kind == "existing-output-no-force-decompress" {
			runCLI(nil, "-c", "-i", in, "-o", filepath.Join(dir, "k.knz"), "-v", "0")
			out = filepath.Join(dir, "k.out")
			args = []string{"-d", "-i", filepath.Join(dir, "k.knz"), "-o", out, "-v", "0"}
		}
		os.WriteFile(out, []byte("precious"), 0o644)
		code, _, _ := runCLI(nil, args...)
		g, _ := os.ReadFile(out)
		if string(g) != "precious" {
			return failf("existing-file-overwritten-without-force "+s.Kind, "exit %d; existing output now has %d bytes", code, len(g)), true
		}
		if code == 0 {
			return failf("refusal-reported-as-success "+s.Kind, "output existed, nothing was written, exit status 0"), true
		}
		return intact("refused overwrite"), true
	case "output-is-input", "output-is-input-alias", "output-is-input-symlink", "output-is-input-hardlink":
		out := in
		switch s.Kind {
		case "output-is-input-alias":
			os.MkdirAll(filepath.Join(dir, "d"), 0o755)
			out = filepath.Join(dir, "d", "..", "in.txt")
		case "output-is-input-symlink":
			out = filepath.Join(dir, "link")
			os.Symlink(in, out)
		case "output-is-input-hardlink":
			out = filepath.Join(dir, "hard")
			os.Link(in, out)
		}
		for _, force := range []bool{false, true} {
			args := []string{"-c", "-i", in, "-o", out, "-v", "0"}
			if force {
				args = append(args, "-f")
			}
			code, _, _ := runCLI(nil, args...)
			if f := intact(fmt.Sprintf("-o %s force=%v (exit %d)", s.Kind, force, code)); f != nil {
				return f, true
			}
			if code == 0 {
				return failf("writes-to-own-input-reported-success "+s.Kind, "force=%v: exit 0", force), true
			}
		}
		return nil, true
	case "read-only-input":
		os.Chmod(in, 0o444)
		st0, _ := os.Stat(in)
		if code, msg, _ := runCLI(nil, "-c", "-i", in, "-o", filepath.Join(dir, "o.knz"), "-v", "0"); code != 0 {
			return failf("read-only-input-fails", "exit %d %s", code, msg), true
		}
		st1, _ := os.Stat(in)
		if !st0.ModTime().Equal(st1.ModTime()) || st0.Mode() != st1.Mode() {
			return failf("input-metadata-changed", "mtime/mode of the input changed"), true
		}
		return intact("read-only input"), true
	case "failed-compress-keeps-source-with-rm":
		// the output cannot be created: compression fails, --rm must not remove the source
		// the output path runs through a regular file: it cannot be created, whoever runs the tool
		blocker := filepath.Join(dir, "blocker")
		os.WriteFile(blocker, []byte("x"), 0o644)
		code, _, _ := runCLI(nil, "-c", "-i", in, "-o", filepath.Join(blocker, "x", "o.knz"), "-v", "0", "--rm")
		if code == 0 {
			return failf("impossible-output-reported-success", "output path below a regular file, exit 0"), true
		}
		if f := intact(fmt.Sprintf("failed compression with --rm (exit %d)", code)); f != nil {
			return f, true
		}
		return nil, true
	case "failed-decompress-keeps-source-with-rm":
		k := filepath.Join(dir, "k.knz")
		runCLI(nil, "-c", "-i", in, "-o", k, "-v", "0", "-x")
		kd, _ := os.ReadFile(k)
		kd[len(kd)/2] ^= 0x10
		os.WriteFile(k, kd, 0o644)
		code, _, _ := runCLI(nil, "-d", "-i", k, "-o", filepath.Join(dir, "k.out"), "-v", "0", "--rm")
		if _, err := os.Stat(k); err != nil {
			return failf("source-removed-after-failed-decompression", "exit %d and the damaged .knz was removed", code), true
		}
		if code == 0 {
			return failf("damaged-stream-decompressed-with-exit-0", "a damaged checksummed stream decompressed with exit status 0"), true
		}
		return nil, true
	}
	return failf("harness", "kind"), false
})

// ---- E7: crash points ----

var reSys = regexp.MustCompile(`^(\d+)\s+(\w+)\((.*)\)\s+= (-?\d+)`)
var rePathArg = regexp.MustCompile(`<([^>]*)>`)

type sysEvent struct {
	Call  string
	Path  string
	N     int
	Flags string
	Line  string
}

func parseStrace(log string, root string) []sysEvent {
	var ev []sysEvent
	// join unfinished/resumed pairs: only the resumed line carries the result; keep args from the unfinished one
	pending := map[string]string{}
	for _, line := range strings.Split(log, "\n") {
		if strings.Contains(line, "<unfinished ...>") {
			f := strings.Fields(line)
			if len(f) > 0 {
				pending[f[0]] = strings.TrimSuffix(strings.TrimSpace(strings.TrimPrefix(line, f[0])), "<unfinished ...>")
			}
			continue
		}
		if i := strings.Index(line, "<... "); i >= 0 && strings.Contains(line, "resumed>") {
			f := strings.Fields(line)
			if p, ok := pending[f[0]]; ok {
				rest := line[strings.Index(line, "resumed>")+len("resumed>"):]
				line = f[0] + "  " + strings.TrimSpace(p) + rest
				delete(pending, f[0])
			}
		}
		m := reSys.FindStringSubmatch(line)
		if m == nil {
			continue
		}
		ret, _ := strconv.Atoi(m[4])
		call, args := m[2], m[3]
		switch call {
		case "openat", "creat":
			if ret < 0 {
				continue
			}
			q := regexp.MustCompile(`"([^"]*)"`).FindStringSubmatch(args)
			if q == nil || !strings.HasPrefix(q[1], root) {
				continue
			}
			ev = append(ev, sysEvent{Call: "open", Path: q[1], Flags: args, Line: line})
		case "write", "pwrite64":
			if ret <= 0 {
				continue
			}
			p := rePathArg.FindStringSubmatch(args)
			if p == nil || !strings.HasPrefix(p[1], root) {
				continue
			}
			ev = append(ev, sysEvent{Call: "write", Path: p[1], N: ret, Line: line})
		case "unlinkat", "unlink":
			if ret != 0 {
				continue
			}
			q := regexp.MustCompile(`"([^"]*)"`).FindStringSubmatch(args)
			if q == nil || !strings.HasPrefix(q[1], root) {
				continue
			}
			ev = append(ev, sysEvent{Call: "unlink", Path: q[1], Line: line})
		case "rename", "renameat", "renameat2":
			if ret != 0 {
				continue
			}
			q := regexp.MustCompile(`"([^"]*)"`).FindAllStringSubmatch(args, -1)
			if len(q) == 2 {
				ev = append(ev, sysEvent{Call: "rename", Path: q[0][1], Flags: q[1][1], Line: line})
			}
		case "ftruncate":
			p := rePathArg.FindStringSubmatch(args)
			if p != nil && strings.HasPrefix(p[1], root) {
				ev = append(ev, sysEvent{Call: "truncate", Path: p[1], Line: line})
			}
		}
	}
	return ev
}

type crashCase struct {
	Tree      string `json:"tree"`
	Direction string `json:"direction"` // compress | decompress
	Jobs      int    `json:"jobs"`
	Level     string `json:"level"`
}

func (c crashCase) String() string { return fmt.Sprintf("%s|%s|%d|%s", c.Tree, c.Direction, c.Jobs, c.Level) }

var c19ctx *Ctx

type fstate struct {
	exists bool
	size   int
	final  []byte // bytes the file will eventually hold (for outputs), or the original content (sources)
}

func runCrash(c crashCase) (*Fail, bool) {
	dir := scratch()
	defer os.RemoveAll(dir)
	root := filepath.Join(dir, "t")
	orig, err := makeTree(root, c.Tree)
	if err != nil {
		return failf("harness", "%v", err), false
	}
	cls := fmt.Sprintf("%s --rm jobs=%d", c.Direction, c.Jobs)
	counterpart := func(p string) string { return p + ".knz" }
	expectOut := map[string][]byte{} // abs path of an output -> content it must decode/equal to
	sources := map[string][]byte{}   // abs path of a source -> its content
	if c.Direction == "decompress" {
		// prepare the compressed tree first (not traced)
		if code, msg, _ := runCLI(nil, "-c", "-i", root, "-v", "0", "-j", "2", "-l", c.Level, "--rm"); code != 0 {
			return failf("harness-prepare", "exit %d %s", code, msg), false
		}
		for p, d := range readTree(root) {
			sources[filepath.Join(root, p)] = d
		}
		for p, d := range orig {
			expectOut[filepath.Join(root, p)] = d
		}
		counterpart = func(p string) string { return strings.TrimSuffix(p, ".knz") }
	} else {
		for p, d := range orig {
			sources[filepath.Join(root, p)] = d
		}
	}
	logf := filepath.Join(dir, "strace.log")
	args := []string{"-f", "-y", "-s", "0", "-e", "trace=openat,creat,write,pwrite64,unlinkat,unlink,rename,renameat,renameat2,ftruncate", "-o", logf, cliBin}
	if c.Direction == "compress" {
		args = append(args, "-c", "-i", root, "-v", "0", "-j", strconv.Itoa(c.Jobs), "-l", c.Level, "--rm")
	} else {
		args = append(args, "-d", "-i", root, "-v", "0", "-j", strconv.Itoa(c.Jobs), "--rm")
	}
	cmd := exec.Command("strace", args...)
	if b, err := cmd.CombinedOutput(); err != nil {
		return failf("traced-run-failed "+cls, "the traced run failed: %v %s", err, trunc(string(b), 300)), true
	}
	logData, _ := os.ReadFile(logf)
	events := parseStrace(string(logData), root)
	final := map[string][]byte{}
	for p, d := range readTree(root) {
		final[filepath.Join(root, p)] = d
	}
	// model state
	st := map[string]*fstate{}
	for p, d := range sources {
		st[p] = &fstate{exists: true, size: len(d), final: d}
	}
	decodeCache := map[string]bool{}
	decodes := func(knz []byte, want []byte) bool {
		key := sha(knz) + sha(want) + strconv.Itoa(len(knz))
		if v, ok := decodeCache[key]; ok {
			return v
		}
		tmp := filepath.Join(dir, "probe.knz")
		out := filepath.Join(dir, "probe.out")
		os.WriteFile(tmp, knz, 0o644)
		os.Remove(out)
		code, _, _ := runCLI(nil, "-d", "-i", tmp, "-o", out, "-v", "0", "-f")
		g, _ := os.ReadFile(out)
		ok := code == 0 && bytes.Equal(g, want)
		decodeCache[key] = ok
		return ok
	}
	check := func(k int, why string) *Fail {
		if c19ctx != nil {
			c19ctx.Count(fmt.Sprintf("%s|prefix%d", c, k), true)
		}
		for p, d := range sources {
			s := st[p]
			if s.exists {
				if s.size != len(d) {
					return failf("source-modified "+cls, "%s: after %d events (%s) the source %s has size %d instead of %d", c, k, why, p, s.size, len(d))
				}
				continue
			}
			cp := st[counterpart(p)]
			if cp == nil || !cp.exists {
				return failf("source-gone-without-output "+cls, "%s: killed after %d events (%s): %s is removed and its output %s does not exist", c, k, why, p, counterpart(p))
			}
			have := cp.final[:min(cp.size, len(cp.final))]
			if c.Direction == "compress" {
				if !decodes(have, d) {
					return failf("source-gone-output-incomplete "+cls, "%s: killed after %d events (%s): %s is removed but its output holds %d of %d bytes and does not decode to it", c, k, why, p, cp.size, len(cp.final))
				}
			} else {
				want := expectOut[counterpart(p)]
				if !bytes.Equal(have, want) {
					return failf("source-gone-output-incomplete "+cls, "%s: killed after %d events (%s): %s is removed but the restored file holds %d of %d bytes", c, k, why, p, cp.size, len(want))
				}
			}
		}
		return nil
	}
	if f := check(0, "start"); f != nil {
		return f, true
	}
	for k, e := range events {
		s := st[e.Path]
		switch e.Call {
		case "open":
			writing := strings.Contains(e.Flags, "O_WRONLY") || strings.Contains(e.Flags, "O_RDWR") || strings.Contains(e.Flags, "O_TRUNC")
			if _, isSrc := sources[e.Path]; isSrc && writing {
				return failf("input-opened-for-writing "+cls, "%s: %s", c, e.Line), true
			}
			if strings.Contains(e.Flags, "O_CREAT") || (writing && s != nil) {
				if s == nil {
					s = &fstate{final: final[e.Path]}
					st[e.Path] = s
				}
				if !s.exists || strings.Contains(e.Flags, "O_TRUNC") {
					s.size = 0
				}
				s.exists = true
			}
		case "write":
			if s != nil {
				s.size += e.N
			}
		case "truncate":
			if s != nil {
				s.size = 0
			}
		case "unlink":
			if s != nil {
				s.exists = false
			}
		case "rename":
			if s != nil {
				st[e.Flags] = s
				delete(st, e.Path)
			}
		}
		if f := check(k+1, e.Call+" "+filepath.Base(e.Path)); f != nil {
			return f, true
		}
	}
	// the model, replayed completely, must describe the real final tree
	for p, s := range st {
		d, ok := final[p]
		if s.exists != ok || (ok && s.size != len(d)) {
			return failf("harness-model-mismatch", "%s: after the whole history the model says %s exists=%v size=%d, the real tree says exists=%v size=%d", c, p, s.exists, s.size, ok, len(d)), false
		}
	}
	if c19ctx != nil {
		c19ctx.AddStates(int64(len(events)+1), int64(len(events)), 1)
	}
	return nil, true
}

var famCrash = NewFamily("C19.crash", runCrash)

// real SIGKILL at the N-th unlinkat, -j 1: the post-kill tree must satisfy the invariant, too
type killCase struct {
	Tree string `json:"tree"`
	N    int    `json:"nth_unlink"`
}

func (k killCase) String() string { return fmt.Sprintf("%s|%d", k.Tree, k.N) }

var famKill = NewFamily("C19.kill", func(k killCase) (*Fail, bool) {
	dir := scratch()
	defer os.RemoveAll(dir)
	root := filepath.Join(dir, "t")
	orig, _ := makeTree(root, k.Tree)
	cmd := exec.Command("strace", "-f", "-o", "/dev/null", "-e", "trace=unlinkat", "-e", fmt.Sprintf("inject=unlinkat:signal=SIGKILL:when=%d", k.N), cliBin, "-c", "-i", root, "-v", "0", "-j", "1", "-l", "2", "--rm")
	cmd.CombinedOutput()
	got := readTree(root)
	for p, d := range orig {
		if g, ok := got[p]; ok {
			if !bytes.Equal(g, d) {
				return failf("source-modified real-kill", "%s: %s modified", k, p), true
			}
			continue
		}
		kz, ok := got[p+".knz"]
		if !ok {
			return failf("source-gone-without-output real-kill", "%s: killed at unlink #%d: %s is gone and there is no %s.knz", k, k.N, p, p), true
		}
		tmp, out := filepath.Join(dir, "p.knz"), filepath.Join(dir, "p.out")
		os.WriteFile(tmp, kz, 0o644)
		os.Remove(out)
		code, _, _ := runCLI(nil, "-d", "-i", tmp, "-o", out, "-v", "0", "-f")
		g, _ := os.ReadFile(out)
		if code != 0 || !bytes.Equal(g, d) {
			return failf("source-gone-output-incomplete real-kill", "%s: killed at unlink #%d: %s is gone and %s.knz does not decode to it (exit %d)", k, k.N, p, p, code), true
		}
	}
	return nil, true
})

// I/O faults: the K-th write()/pwrite64() system call of each thread of a --rm run fails with ENOSPC
// (strace fault injection). Whatever the tool then reports, each source must still exist intact or
// its counterpart must exist and hold exactly what it stands for.
type ioFaultCase struct {
	Tree      string `json:"tree"`
	Direction string `json:"direction"`
	K         int    `json:"kth_write"`
	Err       string `json:"errno"`
}

func (k ioFaultCase) String() string { return fmt.Sprintf("%s|%s|%d|%s", k.Tree, k.Direction, k.K, k.Err) }

func countWrites(tree, direction string) int {
	dir := scratch()
	defer os.RemoveAll(dir)
	root := filepath.Join(dir, "t")
	makeTree(root, tree)
	args := []string{"-c", "-i", root, "-v", "0", "-j", "1", "-l", "2", "--rm"}
	if direction == "decompress" {
		runCLI(nil, args...)
		args = []string{"-d", "-i", root, "-v", "0", "-j", "1", "--rm"}
	}
	logf := filepath.Join(dir, "w.log")
	cmd := exec.Command("strace", append([]string{"-f", "-o", logf, "-e", "trace=write,pwrite64", cliBin}, args...)...)
	cmd.Env = append(os.Environ(), "GOMAXPROCS=1")
	cmd.CombinedOutput()
	b, _ := os.ReadFile(logf)
	return strings.Count(string(b), "write(") + strings.Count(string(b), "pwrite64(")
}

var famIOFault = NewFamily("C19.iofault", func(k ioFaultCase) (*Fail, bool) {
	dir := scratch()
	defer os.RemoveAll(dir)
	root := filepath.Join(dir, "t")
	orig, _ := makeTree(root, k.Tree)
	args := []string{"-c", "-i", root, "-v", "0", "-j", "1", "-l", "2", "--rm"}
	var packed map[string][]byte
	if k.Direction == "decompress" {
		if code, msg, _ := runCLI(nil, args...); code != 0 {
			return failf("harness-iofault-prepare", "healthy compression failed: %d %s", code, msg), false
		}
		packed = readTree(root)
		args = []string{"-d", "-i", root, "-v", "0", "-j", "1", "--rm"}
	}
	inj := fmt.Sprintf("inject=write,pwrite64:error=%s:when=%d", k.Err, k.K)
	cmd := exec.Command("strace", append([]string{"-f", "-o", "/dev/null", "-e", "trace=write,pwrite64", "-e", inj, cliBin}, args...)...)
	cmd.Env = append(os.Environ(), "GOMAXPROCS=1")
	done := make(chan struct{})
	go func() { cmd.CombinedOutput(); close(done) }()
	select {
	case <-done:
	case <-time.After(10 * time.Minute):
		if cmd.Process != nil {
			cmd.Process.Kill()
		}
		return failf("hang "+k.Direction+" with a failing write", "%s: the tool did not finish within 10 minutes", k), true
	}
	got := readTree(root)
	decode := func(kz []byte) ([]byte, int) {
		tmp, out := filepath.Join(dir, "p.knz"), filepath.Join(dir, "p.out")
		os.WriteFile(tmp, kz, 0o644)
		os.Remove(out)
		code, _, _ := runCLI(nil, "-d", "-i", tmp, "-o", out, "-v", "0", "-f")
		g, _ := os.ReadFile(out)
		return g, code
	}
	for p, d := range orig {
		if k.Direction == "compress" {
			if g, ok := got[p]; ok {
				if !bytes.Equal(g, d) {
					return failf("source-modified write-failure compress", "%s: %s was modified", k, p), true
				}
				continue
			}
			kz, ok := got[p+".knz"]
			if !ok {
				return failf("source-gone-without-output write-failure compress", "%s: %s is gone and there is no %s.knz", k, p, p), true
			}
			if g, code := decode(kz); code != 0 || !bytes.Equal(g, d) {
				return failf("source-gone-output-incomplete write-failure compress --rm", "%s: a write failed with %s, %s was removed and %s.knz does not decode to it (exit %d)", k, k.Err, p, p, code), true
			}
			continue
		}
		// decompress: the source is p.knz
		if kz, ok := got[p+".knz"]; ok {
			if !bytes.Equal(kz, packed[p+".knz"]) {
				return failf("source-modified write-failure decompress", "%s: %s.knz was modified", k, p), true
			}
			continue
		}
		if g, ok := got[p]; !ok || !bytes.Equal(g, d) {
			return failf("source-gone-output-incomplete write-failure decompress --rm", "%s: a write failed with %s, %s.knz was removed and %s holds %d of %d bytes", k, k.Err, p, p, len(g), len(d)), true
		}
	}
	return nil, true
})

func init() {
	register("C19", "model_checking", func(c *Ctx) {
		c19ctx = c
		c.Rule("real binary built from the current tree. (a) round trips: trees {flat, nested (empty file, empty dir, dot file, sub-directories), single, large, names (a file already ending in .knz, several dots, space, non-ASCII, directory ending in .knz, hidden directory, a file of exactly one block)} x levels 0..9 and explicit -t/-e/-b/-x option sets x modes {in place with --rm, in place + file-by-file decode, dir -> output dir, file -> file, stdin -> stdout} x jobs {1,4}: full product for the small trees, levels {1,5,8} for the large one. (b) safety: existing output without -f (both directions), output == input via identical path / path alias / symlink / hard link with and without -f, read-only input, failed compression or decompression with --rm keeps the source. (c) crash points: for each --rm run (compress and decompress, -j 1 and -j 4) the syscall history is recorded with strace and EVERY PREFIX is materialised as a model directory state (states = prefixes, transitions = file-system calls); the invariant 'each source exists intact or its output exists and decodes to it (real binary)' is evaluated at every prefix, no call opens an input for writing, and the fully replayed model must equal the real final tree; real SIGKILL injections at every unlinkat of a -j 1 run are checked against the same invariant. (d) I/O faults: the k-th write()/pwrite64() system call (per thread, strace fault injection, ENOSPC; EIO in thorough) of --rm runs in both directions fails, for every k of the fault-free run: afterwards every source exists intact or its counterpart holds exactly what it stands for")
		c.Assume("process kill only (no power loss): bytes passed to write() are in the file; strace -f -y reports every file-system call of the process")
		if err := buildCLI(); err != nil {
			c.HarnessError(err.Error())
			return
		}
		defer os.Remove(cliBin)
		var optSets [][]string
		for l := 0; l <= 9; l++ {
			if !c.Thorough() && (l == 1 || l == 4 || l == 6 || l == 8) {
				continue
			}
			optSets = append(optSets, []string{"-l", strconv.Itoa(l)})
		}
		optSets = append(optSets,
			[]string{"-t", "lz+rlt", "-e", "huffman", "-b", "4k", "-x"},
			[]string{"-t", "rolzx", "-e", "tpaqx", "-b", "32k", "-x32"},
			[]string{"-l", "3", "-b", "1m", "-s"})
		if c.Thorough() {
			optSets = append(optSets,
				[]string{"-t", "none", "-e", "none", "-b", "1024"},
				[]string{"-t", "TEXT+UTF+BWT+RANK+ZRLT", "-e", "ANS0", "-b", "64k", "-x64"},
				[]string{"-t", "bwts+srt+zrlt", "-e", "fpaq", "-b", "16k"})
		}
		famCli.Timeout = 30 * time.Minute
		famCli.Each(c, 12, func(emit func(cliCase)) {
			for _, tree := range pick(c, []string{"nested", "single"}, []string{"flat", "nested", "single"}) {
				for _, mode := range []string{"inplace-rm", "inplace", "outdir", "file", "stdio"} {
					if tree == "single" && (mode == "inplace" || mode == "file") {
						continue
					}
					for _, o := range optSets {
						for _, j := range []int{1, 4} {
							if !c.Thorough() && j == 1 && mode != "inplace-rm" {
								continue
							}
							if !c.Thorough() && (mode == "file" || mode == "stdio" || mode == "inplace") && len(o) == 2 && o[1] != "2" && o[1] != "7" {
								continue
							}
							if !c.Thorough() && j == 1 && len(o) == 2 && o[1] != "3" {
								continue
							}
							emit(cliCase{Tree: tree, Mode: mode, Opts: o, Jobs: j})
						}
					}
				}
			}
			for _, mode := range []string{"inplace-rm", "outdir"} {
				for _, j := range []int{1, 4} {
					emit(cliCase{Tree: "names", Mode: mode, Opts: []string{"-l", "2"}, Jobs: j})
					emit(cliCase{Tree: "names", Mode: mode, Opts: []string{"-t", "lz", "-e", "huffman", "-b", "64k", "--skip"}, Jobs: j})
				}
			}
			for _, l := range pick(c, []string{"1", "5"}, []string{"1", "5", "8"}) {
				emit(cliCase{Tree: "large", Mode: "inplace-rm", Opts: []string{"-l", l}, Jobs: 4})
				emit(cliCase{Tree: "large", Mode: "outdir", Opts: []string{"-l", l}, Jobs: 4})
			}
		})
		famSafe.Each(c, 8, func(emit func(safeCase)) {
			for _, k := range []string{"existing-output-no-force", "existing-output-no-force-decompress", "output-is-input", "output-is-input-alias", "output-is-input-symlink", "output-is-input-hardlink", "read-only-input", "failed-compress-keeps-source-with-rm", "failed-decompress-keeps-source-with-rm"} {
				emit(safeCase{k})
			}
		})
		if _, err := exec.LookPath("strace"); err != nil {
			c.HarnessError("strace not found")
			return
		}
		famCrash.Timeout = 120 * time.Minute
		famCrash.Each(c, 8, func(emit func(crashCase)) {
			for _, tree := range []string{"flat", "nested"} {
				for _, d := range []string{"compress", "decompress"} {
					for _, j := range []int{1, 4} {
						for _, l := range pick(c, []string{"2"}, []string{"0", "2", "5"}) {
							emit(crashCase{Tree: tree, Direction: d, Jobs: j, Level: l})
						}
					}
				}
			}
			emit(crashCase{Tree: "large", Direction: "compress", Jobs: 4, Level: "1"})
			emit(crashCase{Tree: "large", Direction: "decompress", Jobs: 4, Level: "1"})
		})
		famKill.Each(c, 8, func(emit func(killCase)) {
			for n := 1; n <= len(treeSpec("nested")); n++ {
				emit(killCase{Tree: "nested", N: n})
			}
			for n := 1; n <= len(treeSpec("flat")); n++ {
				emit(killCase{Tree: "flat", N: n})
			}
		})
		// every write()/pwrite64() of a --rm run fails once (per thread) with ENOSPC / EIO
		famIOFault.Each(c, 8, func(emit func(ioFaultCase)) {
			for _, tree := range pick(c, []string{"flat", "large"}, []string{"flat", "nested", "large"}) {
				for _, d := range []string{"compress", "decompress"} {
					n := countWrites(tree, d)
					c.Extra(fmt.Sprintf("write_syscalls_%s_%s", tree, d), n)
					for k := 1; k <= n+1; k++ {
						emit(ioFaultCase{Tree: tree, Direction: d, K: k, Err: "ENOSPC"})
						if c.Thorough() {
							emit(ioFaultCase{Tree: tree, Direction: d, K: k, Err: "EIO"})
						}
					}
				}
			}
		})
		var mu sync.Mutex
		_ = mu
		_ = sort.Strings
	})
}
