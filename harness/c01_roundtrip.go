package main

// C01 Lossless round trip through the stream API.
// Three finite sub-spaces, each enumerated completely (see DESIGN.md section 3/C01).

import (
	"bytes"
	"fmt"
	"strings"

	kio "github.com/flanglet/kanzi-go/v2/io"
)

var allTransforms = []string{"NONE", "BWT", "BWTS", "LZ", "LZX", "LZP", "ROLZ", "ROLZX", "RLT", "ZRLT", "MTFT", "RANK", "SRT", "TEXT", "EXE", "MM", "UTF", "PACK", "DNA"}
var allEntropies = []string{"NONE", "HUFFMAN", "ANS0", "ANS1", "RANGE", "FPAQ", "CM", "TPAQ", "TPAQX"}
var levelPresets = []string{"NONE&NONE", "LZX&NONE", "DNA+LZ&HUFFMAN", "TEXT+UTF+PACK+MM+LZX&HUFFMAN", "TEXT+UTF+EXE+PACK+MM+ROLZ&NONE",
	"TEXT+UTF+BWT+RANK+ZRLT&ANS0", "TEXT+UTF+BWT+SRT+ZRLT&FPAQ", "LZP+TEXT+UTF+BWT+LZP&CM", "EXE+RLT+TEXT+UTF+DNA&TPAQ", "EXE+RLT+TEXT+UTF+DNA&TPAQX"}
var eightChains = []string{"TEXT+UTF+EXE+PACK+MM+LZX+RLT+ZRLT", "RLT+LZP+BWT+MTFT+ZRLT+PACK+SRT+RANK", "DNA+ROLZ+BWTS+SRT+ZRLT+LZ+MM+EXE", "EXE+RLT+TEXT+UTF+DNA+ROLZX+LZP+PACK"}

type rtCase struct {
	P        Params `json:"params"`
	Shape    string `json:"shape"`
	Len      int    `json:"len"`
	DecJobs  uint   `json:"dec_jobs"`
	Space    string `json:"space"`
	HintKind string `json:"hint_kind,omitempty"`
}

func (c rtCase) String() string {
	return fmt.Sprintf("%s|%s|%s|%d|%d", c.Space, c.P, c.Shape, c.Len, c.DecJobs)
}

func jobsClass(j uint) string {
	switch {
	case j == 1:
		return "1"
	case j == 64:
		return "64"
	}
	return "2..63"
}

func (c rtCase) fp(symptom string) string {
	if c.Space == "framing" {
		return fmt.Sprintf("%s framing hint=%s jobs=%s", symptom, c.HintKind, jobsClass(c.P.Jobs))
	}
	return fmt.Sprintf("%s transform=%s entropy=%s shape=%s", symptom, c.P.Transform, c.P.Entropy, c.Shape)
}

func runRoundTrip(c rtCase) (*Fail, bool) {
	data := shape(c.Shape, c.Len)
	stream, where, err := compress(data, c.P)
	if err != nil {
		if where == "construct" {
			return failf(c.fp("rejected-legal-config"), "writer construction rejected a legal configuration %s: %v", c.P, err), true
		}
		return failf(c.fp(where+"-error-after-acceptance"), "%s returned error on a healthy sink for %s shape=%s len=%d: %v", where, c.P, c.Shape, c.Len, err), true
	}
	pp := c.P
	res := decompress(stream, c.DecJobs, &pp, 4096+7)
	if res.Err != nil {
		return failf(c.fp("decode-error"), "decoding own stream failed (%s shape=%s len=%d, stream %d bytes, got %d bytes): %v", c.P, c.Shape, c.Len, len(stream), len(res.Out), res.Err), true
	}
	if !bytes.Equal(res.Out, data) {
		return failf(c.fp("decoded!=input"), "round trip differs without any error (%s shape=%s len=%d): decoded %d bytes, first difference at %d", c.P, c.Shape, c.Len, len(res.Out), firstDiff(res.Out, data)), true
	}
	if !res.EOF {
		return failf(c.fp("no-eof"), "reader did not end with io.EOF"), true
	}
	return nil, c.Len > 0
}

var famRT = NewFamily("C01.roundtrip", runRoundTrip)

type ctorCase struct {
	Transform string `json:"transform"`
	Entropy   string `json:"entropy"`
	Block     uint   `json:"block"`
	Jobs      uint   `json:"jobs"`
	Checksum  uint   `json:"checksum"`
}

// constructor space: an illegal configuration must be rejected by the constructor; if the
// constructor accepts, the round trip must then work (rejection later is the violation).
var famCtor = NewFamily("C01.ctor", func(c ctorCase) (*Fail, bool) {
	sk := &memSink{}
	ctx := map[string]any{"transform": c.Transform, "entropy": c.Entropy, "blockSize": c.Block, "jobs": c.Jobs, "checksum": c.Checksum}
	w, err := kio.NewWriterWithCtx(sk, ctx)
	if err != nil {
		return nil, true // rejected at construction: allowed
	}
	data := shape("text", 3000)
	if _, err := w.Write(data); err != nil {
		return failf(fmt.Sprintf("late-rejection t=%s e=%s b=%d j=%d c=%d", c.Transform, c.Entropy, c.Block, c.Jobs, c.Checksum), "constructor accepted %+v but Write failed: %v", c, err), true
	}
	if err := w.Close(); err != nil {
		return failf(fmt.Sprintf("late-rejection t=%s e=%s b=%d j=%d c=%d", c.Transform, c.Entropy, c.Block, c.Jobs, c.Checksum), "constructor accepted %+v but Close failed: %v", c, err), true
	}
	res := decompress(sk.Bytes(), 1, nil, 4096)
	if res.Err != nil || !bytes.Equal(res.Out, data) {
		return failf(fmt.Sprintf("accepted-config-does-not-roundtrip t=%s e=%s b=%d j=%d c=%d", c.Transform, c.Entropy, c.Block, c.Jobs, c.Checksum), "constructor accepted %+v, stream does not decode to input: err=%v len=%d", c, res.Err, len(res.Out)), true
	}
	return nil, true
})

func splitPreset(s string) (string, string) {
	i := strings.Index(s, "&")
	return s[:i], s[i+1:]
}

func init() {
	register("C01", "exploration", func(c *Ctx) {
		c.Rule("three exhaustive products: (a) codec space = every transform x every entropy codec x shapes x lengths around the small-block/raw-copy and block boundaries, all ordered transform pairs, the 10 level presets and 8-stage chains; (b) framing space = 3 codec pairs x jobs {1..8,16,63,64} x checksum {0,32,64} x hint classes {absent,exact,+-1,one block less,<= one block,10x} x header/headerless x lengths around k*B; (c) constructor space = illegal/legal block sizes, jobs, checksum widths, names, chain lengths. Decoder job count differs from the encoder's. Non-trivial = non-empty input (a) / any (b,c); distinct = distinct parameter tuples")
		const B = 1024
		lens := []int{0, 1, 15, 16, 17, 1023, 1024, 1025, 2560, 5123}
		shapesA := coreShapes
		if c.Thorough() {
			shapesA = shapeNames
		}
		famRT.Each(c, 0, func(emit func(rtCase)) {
			// (a) codec space
			for _, t := range allTransforms {
				for _, e := range allEntropies {
					for _, sh := range shapesA {
						for _, n := range lens {
							emit(rtCase{Space: "codec", P: Params{t, e, B, 2, 32, -1, false, false}, Shape: sh, Len: n, DecJobs: 1})
						}
					}
				}
			}
			// larger blocks: one block of 64 KiB + tail, and 2.5 blocks
			bigShapes := pick(c, []string{"text", "utf8-wide", "dna", "lzbound", "random"}, coreShapes)
			for _, t := range allTransforms {
				for _, e := range pick(c, []string{"NONE", "HUFFMAN", "ANS0"}, allEntropies) {
					for _, sh := range bigShapes {
						for _, n := range pick(c, []int{65536 + 17}, []int{65535, 65536 + 17, 163840 + 3}) {
							emit(rtCase{Space: "codec", P: Params{t, e, 65536, 3, 64, int64(n), false, false}, Shape: sh, Len: n, DecJobs: 2})
						}
					}
				}
			}
			// blocks larger than the LZ family's literal-run / match-length encoding limits
			for _, t := range allTransforms {
				for _, e := range []string{"NONE", "HUFFMAN"} {
					for _, sh := range []string{"longlit", "mixed", "runs"} {
						emit(rtCase{Space: "codec", P: Params{t, e, 262144, 2, 32, -1, false, false}, Shape: sh, Len: 262144 + 50000, DecJobs: 2})
					}
				}
			}
			// all ordered pairs of transforms
			pairShapes := pick(c, []string{"text", "dna", "runs", "lzbound"}, []string{"text", "dna", "runs", "lzbound", "utf8-3", "elf"})
			for _, t1 := range allTransforms[1:] {
				for _, t2 := range allTransforms[1:] {
					for _, e := range pick(c, []string{"HUFFMAN"}, []string{"NONE", "HUFFMAN"}) {
						for _, sh := range pairShapes {
							emit(rtCase{Space: "codec", P: Params{t1 + "+" + t2, e, 4096, 2, 32, -1, false, false}, Shape: sh, Len: 9000, DecJobs: 3})
						}
					}
				}
			}
			// level presets and 8-stage chains
			for _, ps := range append(append([]string{}, levelPresets...), func() []string {
				var o []string
				for _, ch := range eightChains {
					o = append(o, ch+"&ANS0", ch+"&NONE")
				}
				return o
			}()...) {
				t, e := splitPreset(ps)
				for _, sh := range shapeNames {
					for _, n := range pick(c, []int{3000, 70000}, []int{17, 3000, 70000, 300000}) {
						emit(rtCase{Space: "codec", P: Params{t, e, 65536, 2, 32, -1, false, false}, Shape: sh, Len: n, DecJobs: 2})
					}
				}
			}
			// one block > 4 MiB with a size hint: the reader then gives ALL its jobs to the single
			// decoding task, and the inverse BWT splits its 8 chunks over that many helper goroutines
			for _, t := range pick(c, []string{"BWT"}, []string{"BWT", "TEXT+UTF+BWT+RANK+ZRLT"}) {
				for _, dj := range []uint{1, 2, 3, 4, 5, 6, 7, 8, 9, 12, 16} {
					for _, ck := range pick(c, []uint{0}, []uint{0, 32}) {
						n := 4<<20 + 4096 + 16
						emit(rtCase{Space: "codec", P: Params{t, "NONE", 8 << 20, 1, ck, int64(n), false, false}, Shape: "text", Len: n, DecJobs: dj})
					}
				}
			}
			// two hinted blocks > 4 MiB: jobs are split over two decoding tasks (3+3, 3+2, ...)
			for _, dj := range pick(c, []uint{5, 6}, []uint{2, 3, 5, 6, 7, 10, 14}) {
				n := 2*(4<<20+65536) - 100
				emit(rtCase{Space: "codec", P: Params{"BWT", "NONE", 4<<20 + 65536, 2, 0, int64(n), false, false}, Shape: "text", Len: n, DecJobs: dj})
			}
			// framing with blocks above the 256 KiB floor of the task buffers: hints that are far too small
			// (a file that grew), exact, too large
			for _, j := range []uint{1, 2, 64} {
				for _, ck := range []uint{0, 32} {
					for _, n := range []int{300 << 10, 600 << 10, 1100 << 10} {
						for _, hint := range []int64{1000, 300 << 10, int64(n), 10 << 20} {
							kind := "less"
							if hint == int64(n) {
								kind = "exact"
							} else if hint > int64(n) {
								kind = "more"
							}
							emit(rtCase{Space: "framing", HintKind: kind, P: Params{"NONE", "NONE", 512 << 10, j, ck, hint, false, false}, Shape: "text", Len: n, DecJobs: 2})
						}
					}
				}
			}
			// incompressible blocks above the 256 KiB floor of the task buffers: entropy coders that EXPAND
			// the block (table headers, escape overhead) by more than the 1/8 the encoder allows for
			for _, e := range allEntropies {
				for _, t := range []string{"NONE", "LZ", "TEXT+UTF"} {
					for _, bsz := range pick(c, []uint{262144}, []uint{262144, 1 << 20, 4 << 20}) {
						if t != "NONE" && bsz != 262144 {
							continue
						}
						emit(rtCase{Space: "codec", P: Params{t, e, bsz, 2, 32, -1, false, false}, Shape: "random", Len: int(bsz) + 1000, DecJobs: 1})
					}
				}
			}
			// block sizes that are not powers of two, and last blocks whose length sits on the boundaries of
			// the 1/2/3-byte block length field (255/256, 65535/65536)
			for _, cd := range [][2]string{{"NONE", "NONE"}, {"LZ", "HUFFMAN"}} {
				for _, bsz := range []uint{1040, 100000} {
					for _, tail := range []int{0, 1, 15, 16, 17, 254, 255, 256, 257, 65534, 65535, 65536, 65537} {
						if tail >= int(bsz) {
							continue
						}
						for _, k := range []int{0, 1} {
							n := k*int(bsz) + tail
							if n == 0 {
								continue
							}
							for _, hl := range []bool{false, true} {
								ck := uint(0)
								if hl {
									ck = 64
								}
								emit(rtCase{Space: "codec", P: Params{cd[0], cd[1], bsz, 2, ck, int64(n), hl, false}, Shape: "text", Len: n, DecJobs: 3})
							}
						}
					}
				}
			}
			// skipBlocks option: incompressible / already compressed blocks are stored raw
			for _, cd := range [][2]string{{"NONE", "NONE"}, {"LZ", "HUFFMAN"}, {"TEXT+UTF+BWT+RANK+ZRLT", "ANS0"}} {
				for _, sh := range []string{"zipmagic-text", "zipmagic", "random", "text", "mixed"} {
					for _, j := range []uint{1, 2, 3, 4} {
						for _, n := range []int{7, 1024, 5*1024 + 11} {
							emit(rtCase{Space: "codec", P: Params{cd[0], cd[1], B, j, 32, -1, false, true}, Shape: sh, Len: n, DecJobs: 5 - j})
						}
					}
				}
			}
			if c.Thorough() {
				// > 4 MiB blocks (BWT bi-PSI inverse, parallel tasks)
				for _, t := range []string{"BWT", "BWTS", "ROLZ", "LZ", "TEXT+UTF+BWT+RANK+ZRLT"} {
					for _, sh := range []string{"text", "dna", "random"} {
						n := 4<<20 + 16 + 4096
						emit(rtCase{Space: "codec", P: Params{t, "ANS0", 8 << 20, 4, 32, int64(n), false, false}, Shape: sh, Len: n, DecJobs: 4})
					}
				}
			}
			// (b) framing space
			codecs := [][2]string{{"NONE", "NONE"}, {"LZ", "HUFFMAN"}, {"BWT", "ANS0"}}
			jobsList := []uint{1, 2, 3, 4, 5, 6, 7, 8, 16, 63, 64}
			for _, cd := range codecs {
				for _, j := range jobsList {
					var ks []int
					for k := 0; k <= int(2*j+1); k++ {
						if j > 8 && k > 3 && k != int(j)-1 && k != int(j) && k != int(j)+1 && k != int(2*j) && k != int(2*j+1) {
							continue
						}
						ks = append(ks, k)
					}
					for _, k := range ks {
						for _, d := range []int{-1, 0, 1} {
							n := k*B + d
							if n < 0 {
								continue
							}
							if !c.Thorough() && cd[0] != "NONE" && d != 1 {
								continue
							}
							hints := map[string]int64{"absent": -1, "exact": int64(n), "less1": int64(n) - 1, "more1": int64(n) + 1, "blockless": int64(n) - B, "oneblock": int64(min(n, B/2)), "x10": int64(n) * 10}
							for _, hk := range []string{"absent", "exact", "less1", "more1", "blockless", "oneblock", "x10"} {
								h := hints[hk]
								if h < 0 && hk != "absent" {
									continue
								}
								if hk != "absent" && hk != "exact" && h == int64(n) {
									continue
								}
								for _, ck := range []uint{0, 32, 64} {
									if !c.Thorough() && ck == 64 && j > 4 {
										continue
									}
									for _, hl := range []bool{false, true} {
										dj := uint(1)
										if j == 1 {
											dj = 3
										}
										kind := hk
										switch {
										case hk == "absent" || hk == "exact":
										case h < int64(n):
											kind = "less"
										default:
											kind = "more"
										}
										emit(rtCase{Space: "framing", HintKind: kind, P: Params{cd[0], cd[1], B, j, ck, h, hl, false}, Shape: "text", Len: n, DecJobs: dj})
									}
								}
							}
						}
					}
				}
			}
		})
		// (c) constructor space
		famCtor.Each(c, 0, func(emit func(ctorCase)) {
			blocks := []uint{0, 1, 15, 16, 1008, 1023, 1024, 1025, 1040, 4096, 65535, 65536, 1 << 20}
			for _, b := range blocks {
				for _, j := range []uint{0, 1, 2, 64, 65, 1000} {
					for _, ck := range []uint{0, 1, 16, 31, 32, 33, 64, 128} {
						emit(ctorCase{"LZ", "HUFFMAN", b, j, ck})
					}
				}
			}
			names := []string{"", "NONE", "none", "FOO", "LZ+", "+LZ", "LZ++RLT", "LZ+FOO", "NONE+NONE", "NONE+LZ+NONE", "lz", "Lz+rLt",
				strings.Repeat("RLT+", 7) + "RLT", strings.Repeat("RLT+", 8) + "RLT", strings.Repeat("NONE+", 8) + "RLT", " LZ", "LZ ", "SNAPPY", "LZ4"}
			for _, t := range names {
				emit(ctorCase{t, "NONE", 1024, 2, 32})
			}
			for _, e := range []string{"", "none", "huffman", "FOO", "ANS", "ANS2", "TPAQX ", "Range"} {
				emit(ctorCase{"LZ", e, 1024, 2, 32})
			}
		})
	})
}
