package main

// C07 Block hand-off protocol: exclusive, ordered, always terminating, failures stop the others
// and are reported by the enclosing call. Decided by E1: every interleaving x every fault
// placement (which task, which step).

import "fmt"

var c07Oracles = []string{"exclusivity", "order", "deadlock", "livelock", "continues-after-cancel", "fault-not-reported-by-call", "failure-not-reported", "panic-escaped"}
var c08Oracles = []string{"close-ok-on-incomplete-stream", "failure-not-reported", "panic-escaped", "fault-not-reported-by-call", "deadlock", "livelock", "wrong-bytes"}

// faultScenarios enumerates fault placements for encoder and decoder scenarios.
func faultScenarios(c *Ctx, mainThread bool) []e1Spec {
	var specs []e1Spec
	sites := []struct {
		site string
		nth  int
	}{{"compute", 0}, {"stream", 0}, {"stream", 1}, {"stream", 2}, {"stream-str", 0}, {"stream-str", 2}}
	for _, cfg := range []struct {
		jobs         uint
		blocks, tail int
	}{{2, 3, 100}, {3, 4, 100}} {
		ntasks := cfg.blocks + 1 // data tasks over all batches (tail included)
		for t := 1; t <= ntasks; t++ {
			for _, st := range sites {
				s := encSpec(fmt.Sprintf("enc j%d %dblk+tail fault T%d %s#%d", cfg.jobs, cfg.blocks, t, st.site, st.nth), cfg.jobs, cfg.blocks, cfg.tail, -1, "sleep", -1)
				s.FaultThread, s.FaultSite, s.FaultNth = t, st.site, st.nth
				specs = append(specs, s)
			}
		}
		dtasks := cfg.blocks + 2 // data blocks + tail + end marker
		for t := 1; t <= dtasks; t++ {
			for _, st := range sites {
				if st.site == "compute" {
					continue // in the decoder the compute phase follows the hand-off; a failure there is the payload-damage scenario
				}
				s := decSpec(fmt.Sprintf("dec j%d %dblk+tail fault T%d %s#%d", cfg.jobs, cfg.blocks, t, st.site, st.nth), cfg.jobs, cfg.blocks, cfg.tail, "sleep", -1)
				s.FaultThread, s.FaultSite, s.FaultNth = t, st.site, st.nth
				if cfg.jobs == 3 && t >= 4 && !c.Thorough() {
					s.Mode, s.Bound = "bounded", 2
				}
				specs = append(specs, s)
			}
		}
	}
	if mainThread {
		// the calling goroutine's own accesses to the shared stream (header fields, end marker)
		for n := 0; n < 13; n++ {
			s := encSpec(fmt.Sprintf("enc j2 2blk fault in calling goroutine stream-op#%d", n), 2, 2, 0, -2, "sleep", -1)
			s.FaultThread, s.FaultSite, s.FaultNth = 0, "stream", n
			specs = append(specs, s)
		}
		for n := 0; n < 11; n++ {
			s := decSpec(fmt.Sprintf("dec j2 2blk fault in calling goroutine stream-op#%d", n), 2, 2, 0, "sleep", -1)
			s.FaultThread, s.FaultSite, s.FaultNth = 0, "stream", n
			specs = append(specs, s)
		}
	}
	return specs
}

// stallScenarios: a task waits for a predecessor that is merely slow (blocked in I/O, descheduled):
// the waiting task polls the token 2^27 (thorough 2^31) times in a row before anybody else moves.
// An unbounded wait is unaffected; a wait that gives up after a bounded number of polls is exposed.
func stallScenarios(c *Ctx) []e1Spec {
	var specs []e1Spec
	polls := pick(c, int64(1)<<27, int64(1)<<31)
	for _, jobs := range []uint{2, 3} {
		for w := 2; w <= int(jobs); w++ {
			s := encSpec(fmt.Sprintf("enc j%d %dblk+tail task T%d waits for a slow predecessor", jobs, jobs, w), jobs, int(jobs), 100, -1, "stall", -1)
			s.StallThread, s.StallPolls = w, polls
			specs = append(specs, s)
			s = decSpec(fmt.Sprintf("dec j%d %dblk+tail task T%d waits for a slow predecessor", jobs, jobs, w), jobs, int(jobs), 100, "stall", -1)
			s.StallThread, s.StallPolls = w, polls
			specs = append(specs, s)
		}
	}
	// spin-then-park designs: the waiters have used up a small spin budget (2^16 polls) and sit in
	// whatever they do next, while ALL interleavings of the others are explored, with a block that
	// fails after its hand-off, with a failing shared read, and fault-free
	for _, ws := range [][]int{{3}, {2, 3}} {
		mode, budget := "cache", pick(c, int64(1)<<13, int64(1)<<16)
		s := decSpec(fmt.Sprintf("dec j3 4blk+tail block 1 fails after hand-off, waiters %v past their spin budget", ws), 3, 4, 100, mode, -1)
		s.CorruptBlock, s.CorruptKind = 1, "payload"
		s.StallThreads, s.StallPolls = ws, budget
		specs = append(specs, s)
		s = decSpec(fmt.Sprintf("dec j3 3blk+tail valid, waiters %v past their spin budget", ws), 3, 3, 100, mode, -1)
		s.StallThreads, s.StallPolls = ws, budget
		specs = append(specs, s)
		s = encSpec(fmt.Sprintf("enc j3 3blk+tail fault T1 stream#1, waiters %v past their spin budget", ws), 3, 3, 100, -1, mode, -1)
		s.FaultThread, s.FaultSite, s.FaultNth = 1, "stream", 1
		s.StallThreads, s.StallPolls = ws, budget
		specs = append(specs, s)
	}
	return specs
}

func init() {
	register("C07", "model_checking", func(c *Ctx) {
		c.Rule("controlled-scheduler DFS over the real encoder and decoder tasks (jobs 2 and 3, two or three batches; jobs 4 one batch): every interleaving x every fault placement (task t in every batch x {compute phase, 1st/2nd/3rd shared-stream operation, failures raised as error values and as plain strings}; a task that waits 2^27 polls for a predecessor that is merely slow; waiters that have used up a spin budget of 2^13 (2^16) polls combined with all interleavings of the others (spin-then-park designs); the calling goroutine's own stream operations; payload damage = failure after the hand-off; end of stream at every position; skipped blocks). Oracles on every execution: exclusive use of the shared stream, increasing block order, no deadlock / livelock (all tasks finish, the call returns), no task starts using the stream after a cancel was signalled, the call during which a task failed returns an error, no panic escapes. states/transitions = abstract protocol states (atomic values, pending op per thread, WaitGroup count, holder) and steps seen")
		c.Assume("Go atomics are sequentially consistent; a failing sink/source surfaces as a panic inside the bitstream operation (that is what Default{Output,Input}BitStream do), which is what the monitored stream injects")
		var specs []e1Spec
		// fault-free protocol runs
		specs = append(specs,
			encSpec("enc j2 3blk+tail protocol", 2, 3, 100, -1, "sleep", -1),
			encSpec("enc j3 4blk+tail protocol", 3, 4, 100, -1, "sleep", -1),
			encSpec("enc j4 4blk+tail protocol", 4, 4, 100, -1, "sleep", -1),
			encSpec("enc j3 4blk+tail protocol plain DFS <=2 preemptions", 3, 4, 100, -1, "bounded", 2),
			decSpec("dec j2 3blk+tail protocol", 2, 3, 100, "sleep", -1),
			decSpec("dec j3 3blk+tail protocol", 3, 3, 100, "sleep", -1),
			decSpec("dec j4 2blk+tail protocol", 4, 2, 100, "sleep", -1),
			decSpec("dec j3 3blk+tail protocol plain DFS <=2 preemptions", 3, 3, 100, "bounded", 2),
		)
		// end of stream at every position of a batch, skipped blocks
		for nb := 0; nb <= 4; nb++ {
			specs = append(specs, decSpec(fmt.Sprintf("dec j3 %dblk end-of-stream position", nb), 3, nb, 0, "sleep", -1))
		}
		for _, ft := range [][2]int{{2, 4}, {1, 2}, {4, 9}, {3, 3}, {5, 6}} {
			s := decSpec(fmt.Sprintf("dec j2 5blk range [%d,%d)", ft[0], ft[1]), 2, 5, 0, "sleep", -1)
			s.From, s.To = ft[0], ft[1]
			specs = append(specs, s)
		}
		// payload damage: the task fails after it passed the token
		for _, jobs := range []uint{2, 3} {
			nb := int(jobs) + 1
			for j := 1; j <= nb+1; j++ {
				mode := "sleep"
				if jobs == 3 && j >= 4 && !c.Thorough() {
					mode = "cache" // ~2*10^5 executions with sleep sets: too close to the quick deadline on a loaded machine
				}
				s := decSpec(fmt.Sprintf("dec j%d %dblk+tail block %d fails after hand-off", jobs, nb, j), jobs, nb, 100, mode, -1)
				s.CorruptBlock, s.CorruptKind = j, "payload"
				specs = append(specs, s)
			}
		}
		specs = append(specs, faultScenarios(c, true)...)
		specs = append(specs, stallScenarios(c)...)
		// state-caching exploration: 4 and 5 tasks, two batches, every task x the step that holds the stream
		specs = append(specs,
			encSpec("enc j5 5blk+tail protocol state-caching", 5, 5, 100, -1, "cache", -1),
			encSpec("enc j4 8blk+tail protocol state-caching", 4, 8, 100, -1, "cache", -1),
			decSpec("dec j4 4blk+tail protocol state-caching", 4, 4, 100, "cache", -1),
			decSpec("dec j5 5blk+tail protocol state-caching", 5, 5, 100, "cache", -1))
		for t := 1; t <= 6; t++ {
			for _, nth := range []int{0, 2} {
				s := encSpec(fmt.Sprintf("enc j4 5blk+tail fault T%d stream#%d state-caching", t, nth), 4, 5, 100, -1, "cache", -1)
				s.FaultThread, s.FaultSite, s.FaultNth = t, "stream", nth
				specs = append(specs, s)
				s = decSpec(fmt.Sprintf("dec j4 5blk+tail fault T%d stream#%d state-caching", t, nth), 4, 5, 100, "cache", -1)
				s.FaultThread, s.FaultSite, s.FaultNth = t, "stream", nth
				specs = append(specs, s)
			}
		}
		if c.Thorough() {
			specs = append(specs, encSpec("enc j5 5blk+tail protocol", 5, 5, 100, -1, "sleep", -1))
			for t := 1; t <= 4; t++ {
				s := encSpec(fmt.Sprintf("enc j4 4blk+tail fault T%d stream#1", t), 4, 4, 100, -1, "sleep", -1)
				s.FaultThread, s.FaultSite, s.FaultNth = t, "stream", 1
				specs = append(specs, s)
				s = decSpec(fmt.Sprintf("dec j4 2blk+tail fault T%d stream#2", t), 4, 2, 100, "sleep", -1)
				s.FaultThread, s.FaultSite, s.FaultNth = t, "stream", 2
				specs = append(specs, s)
			}
		}
		for i := range specs {
			specs[i].Oracles = c07Oracles
			specs[i].MaxSecs = pick(c, 90, 900)
		}
		results := e1RunAll(c, specs, 16)
		e1Summary(c, results)
		// TLA+ model of the protocol, bound to the code in both directions, then TLC for larger N
		c.Rule("model part (models/HandOff.tla, one action per scheduling point): TLC dumps the complete state graph for N = 1..3 tasks, encoder and decoder, every failure placement / end-marker position / bad payload chosen in Init; every execution of the conformance scenarios (all interleavings) is cut into batches and walked through the graph (impl -> model), and every transition of every graph is replayed on the real code as a directed schedule whose events must equal the path's labels (model -> impl); only then TLC's verdict for N = 4 (5, 6 in thorough) on mutual exclusion, order, cancel final and sticky, complete join, termination under weak fairness is counted. A conformance failure is reported as 'not completed', never as a violation")
		e1bRun(c)
	})
}
