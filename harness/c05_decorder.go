package main

// C05 Decoded output is independent of parallelism and preserves block order; nothing beyond a
// failed block is ever delivered. Decided by E1 (all interleavings of the decoding tasks) plus a
// free-running product over job counts.

import (
	"bytes"
	"fmt"

	kio "github.com/flanglet/kanzi-go/v2/io"
)

var c05Oracles = []string{"wrong-bytes", "data-beyond-failed-block", "failure-not-reported", "error-on-valid-stream", "short-output", "no-eof", "deadlock", "livelock", "panic-escaped"}

func decSpec(name string, jobs uint, blocks, tail int, mode string, bound int) e1Spec {
	return e1Spec{Name: name, Kind: "dec", Jobs: jobs, Blocks: blocks, Tail: tail, Hint: -1, Transform: "NONE", Entropy: "NONE", Checksum: 32, FaultThread: -1, Mode: mode, Bound: bound}
}

type decFreeCase struct {
	P       Params `json:"params"`
	Len     int    `json:"len"`
	DecJobs uint   `json:"dec_jobs"`
	RB      int    `json:"read_buf"`
	Bad     int    `json:"bad_block"` // 0 = valid
	Kind    string `json:"bad_kind"`
	From    int    `json:"from,omitempty"` // block range (0,0 = whole stream)
	To      int    `json:"to,omitempty"`
}

func (d decFreeCase) String() string {
	return fmt.Sprintf("%s|%d|%d|%d|%d|%s|%d|%d", d.P, d.Len, d.DecJobs, d.RB, d.Bad, d.Kind, d.From, d.To)
}

var famDecFree = NewFamily("C05.free", func(d decFreeCase) (*Fail, bool) {
	data := shape("text", d.Len)
	stream, _, err := compress(data, d.P)
	if err != nil {
		return failf("harness-compress", "%v", err), false
	}
	limit := -1
	if d.Bad > 0 {
		ks, err := parseKanzi(stream)
		if err != nil || d.Bad > len(ks.Blocks) {
			return failf("harness-kzfmt", "%v", err), false
		}
		if stream, err = damageStream(stream, ks, d.Bad, d.Kind); err != nil {
			return failf("harness-damage", "%v", err), false
		}
		limit = (d.Bad - 1) * int(d.P.Block)
	}
	var res readResult
	jc := jobsClass(d.DecJobs)
	if d.From > 0 {
		// partial decode: the slice delivered must not depend on the job count either
		B := int(d.P.Block)
		lo, hi := min((d.From-1)*B, len(data)), min((d.To-1)*B, len(data))
		r, err := kio.NewReaderWithCtx(newSrc(stream), map[string]any{"jobs": d.DecJobs, "from": d.From, "to": d.To})
		if err != nil {
			return failf("harness-range", "%v", err), false
		}
		res = drain(r, d.RB, 2)
		r.Close()
		if res.Err != nil || !res.EOF || !bytes.Equal(res.Out, data[lo:hi]) {
			return failf(fmt.Sprintf("range-output-depends-on-jobs free jobs=%s", jc), "%s: blocks [%d,%d) with %d jobs: err=%v, %d bytes (want %d), first difference %d", d, d.From, d.To, d.DecJobs, res.Err, len(res.Out), hi-lo, firstDiff(res.Out, data[lo:hi])), true
		}
		return nil, d.DecJobs > 1
	}
	res = decompress(stream, d.DecJobs, nil, d.RB)
	if !isPrefix(res.Out, data) {
		return failf(fmt.Sprintf("wrong-bytes free jobs=%s bad=%s", jc, d.Kind), "bytes returned are not a prefix of the original (%s): %d returned, first difference at %d, err=%v", d, len(res.Out), firstDiff(res.Out, data[:min(len(data), len(res.Out))]), res.Err), true
	}
	if d.Bad == 0 {
		if res.Err != nil || !res.EOF || !bytes.Equal(res.Out, data) {
			return failf(fmt.Sprintf("valid-stream-not-restored free jobs=%s", jc), "%s: err=%v eof=%v len=%d/%d", d, res.Err, res.EOF, len(res.Out), len(data)), true
		}
		return nil, d.DecJobs > 1
	}
	if res.Err == nil {
		return failf(fmt.Sprintf("failure-not-reported free jobs=%s bad=%s", jc, d.Kind), "%s: block %d is damaged but no error was returned (out=%d eof=%v)", d, d.Bad, len(res.Out), res.EOF), true
	}
	if len(res.Out) > limit {
		return failf(fmt.Sprintf("data-beyond-failed-block free jobs=%s bad=%s", jc, d.Kind), "%s: block %d fails, yet %d bytes were returned (limit %d), %d of them after the error", d, d.Bad, len(res.Out), limit, res.AfterErr), true
	}
	return nil, true
})

func init() {
	register("C05", "model_checking", func(c *Ctx) {
		c.Rule("controlled-scheduler DFS over the real decoding tasks: every interleaving (no preemption bound, sleep sets) for jobs 2 and 3, preemption-bounded for jobs 4; streams valid / block j damaged in the payload (fails after publishing the token) / forged length (fails while holding the stream) / truncated, for every j; several Read buffer sizes; oracle on the concatenation of everything Read returned until EOF or 3 calls after the first error: prefix of the original, complete iff valid, never beyond the failed block, failure reported. Plus a free-running product over jobs 1..64 x the same damages. Non-trivial = >= 2 decoding tasks")
		c.Assume("Go atomics are sequentially consistent; unsynchronised accesses are covered by the -race pass of C18")
		var specs []e1Spec
		add := func(s e1Spec) {
			s.Oracles = c05Oracles
			s.MaxSecs = pick(c, 90, 900)
			specs = append(specs, s)
		}
		add(decSpec("dec j2 valid 3blk+tail", 2, 3, 100, "sleep", -1))
		add(decSpec("dec j2 valid 4blk (ends on batch boundary)", 2, 4, 0, "sleep", -1))
		add(decSpec("dec j3 valid 3blk+tail", 3, 3, 100, "sleep", -1))
		add(decSpec("dec j3 valid 2blk (fewer blocks than jobs)", 3, 2, 0, "sleep", -1))
		s := decSpec("dec j2 valid 3blk+tail enc-jobs3 readbuf 700", 2, 3, 100, "sleep", -1)
		s.EncJobs, s.ReadBuf = 3, 700
		add(s)
		s = decSpec("dec j2 valid 3blk+tail readbuf 3B+1", 2, 3, 100, "sleep", -1)
		s.ReadBuf = 3*e1B + 1
		add(s)
		s = decSpec("dec j2 valid 2blk+tail readbuf 1", 2, 2, 5, "sleep", -1)
		s.ReadBuf = 1
		s.MaxExecs = 0
		add(s)
		for _, jobs := range []uint{2, 3} {
			nb := int(jobs) + 1
			for j := 1; j <= nb+1; j++ {
				for _, kind := range []string{"payload", "length", "truncate"} {
					mode := "sleep"
					if jobs == 3 && j >= 4 && kind == "payload" && !c.Thorough() {
						mode = "cache" // 2*10^5 executions with sleep sets (near the quick deadline on a loaded machine)
					}
					s := decSpec(fmt.Sprintf("dec j%d %dblk+tail block %d %s-damaged", jobs, nb, j, kind), jobs, nb, 100, mode, -1)
					s.CorruptBlock, s.CorruptKind = j, kind
					add(s)
				}
			}
		}
		add(decSpec("dec j4 valid 2blk+tail (4 tasks, one batch)", 4, 2, 100, "sleep", -1))
		add(decSpec("dec j4 valid 2blk+tail plain DFS preemption-bounded", 4, 2, 100, "bounded", 2))
		for j := 1; j <= 3; j++ {
			s = decSpec(fmt.Sprintf("dec j4 2blk+tail block %d payload-damaged", j), 4, 2, 100, "sleep", -1)
			s.CorruptBlock, s.CorruptKind = j, "payload"
			add(s)
		}
		// state-caching exploration: two batches of 4 tasks, 5 tasks, each block failing
		add(decSpec("dec j4 valid 4blk+tail (two batches) state-caching", 4, 4, 100, "cache", -1))
		add(decSpec("dec j5 valid 5blk+tail state-caching", 5, 5, 100, "cache", -1))
		add(decSpec("dec j2 valid 3blk+tail state-caching (cross-check)", 2, 3, 100, "cache", -1))
		for j := 1; j <= 6; j++ {
			s = decSpec(fmt.Sprintf("dec j4 5blk+tail block %d payload-damaged state-caching", j), 4, 5, 100, "cache", -1)
			s.CorruptBlock, s.CorruptKind = j, "payload"
			add(s)
		}
		if c.Thorough() {
			add(decSpec("dec j6 valid 7blk+tail state-caching", 6, 7, 100, "cache", -1))
			for j := 1; j <= 6; j++ {
				for _, kind := range []string{"length", "truncate"} {
					s = decSpec(fmt.Sprintf("dec j4 5blk+tail block %d %s-damaged state-caching", j, kind), 4, 5, 100, "cache", -1)
					s.CorruptBlock, s.CorruptKind = j, kind
					add(s)
				}
			}
		}
		s = decSpec("dec j2 LZ/HUFFMAN valid 3blk+tail", 2, 3, 100, "sleep", -1)
		s.Transform, s.Entropy = "LZ", "HUFFMAN"
		add(s)
		if c.Thorough() {
			add(decSpec("dec j3 valid 6blk+tail (3 batches) state-caching", 3, 6, 100, "cache", -1))
			add(decSpec("dec j4 valid 3blk+tail plain DFS <=1 preemption", 4, 3, 100, "bounded", 1))
			add(decSpec("dec j2 valid 7blk+tail (4 batches)", 2, 7, 100, "sleep", -1))
			s = decSpec("dec j3 BWT/ANS0 valid 3blk+tail", 3, 3, 100, "sleep", -1)
			s.Transform, s.Entropy = "BWT", "ANS0"
			add(s)
		}
		for _, st := range stallScenarios(c) {
			if st.Kind == "dec" {
				add(st)
			}
		}
		results := e1RunAll(c, specs, 16)
		e1Summary(c, results)

		famDecFree.Each(c, 0, func(emit func(decFreeCase)) {
			const B = 1024
			// a stream whose header carries the input size: the reader derives its task count from it
			// and hands the spare jobs to the tasks (inverse BWT of blocks > 4 MiB runs that many helpers)
			for _, dj := range []uint{1, 2, 3, 4, 5, 6, 7, 8, 11, 16} {
				n := 4<<20 + 4096 + 16
				emit(decFreeCase{P: Params{"BWT", "NONE", 8 << 20, 1, 0, int64(n), false, false}, Len: n, DecJobs: dj, RB: 1 << 16})
			}
			for _, cd := range [][2]string{{"NONE", "NONE"}, {"BWT", "ANS0"}} {
				for _, nb := range []int{1, 2, 3, 5, 9} {
					n := nb*B - 300
					for _, dj := range []uint{1, 2, 3, 4, 8, 16, 64} {
						for _, h := range []int64{int64(n), int64(n) - B, int64(n) + 5*B} {
							if h <= 0 {
								continue
							}
							emit(decFreeCase{P: Params{cd[0], cd[1], B, 2, 32, h, false, false}, Len: n, DecJobs: dj, RB: 700})
							if nb >= 3 {
								emit(decFreeCase{P: Params{cd[0], cd[1], B, 2, 32, h, false, false}, Len: n, DecJobs: dj, RB: B, Bad: nb - 1, Kind: "payload"})
								emit(decFreeCase{P: Params{cd[0], cd[1], B, 2, 32, h, false, false}, Len: n, DecJobs: dj, RB: B, From: 2, To: nb})
							}
						}
					}
				}
			}
			for _, cd := range [][2]string{{"NONE", "NONE"}, {"LZ", "HUFFMAN"}, {"BWT", "ANS0"}} {
				for _, ck := range []uint{0, 32, 64} {
					for _, nb := range []int{1, 2, 3, 5, 9, 17} {
						n := nb*B - 300
						for _, dj := range []uint{1, 2, 3, 4, 8, 16, 63, 64} {
							for _, rb := range []int{1, 700, B, 3*B + 1, 1 << 16} {
								if rb == 1 && (nb > 3 || dj > 3) {
									continue
								}
								emit(decFreeCase{P: Params{cd[0], cd[1], B, 3, ck, -1, false, false}, Len: n, DecJobs: dj, RB: rb})
								if rb != 1 && nb >= 3 {
									for _, ft := range [][2]int{{2, nb + 1}, {3, nb}, {2, 4}, {nb, nb + 2}, {nb/2 + 1, nb + 1}} {
										emit(decFreeCase{P: Params{cd[0], cd[1], B, 3, ck, -1, false, false}, Len: n, DecJobs: dj, RB: rb, From: ft[0], To: ft[1]})
									}
								}
								if ck == 0 {
									continue
								}
								for bad := 1; bad <= nb; bad++ {
									if nb > 5 && bad != 1 && bad != nb && bad != nb/2 {
										continue
									}
									for _, kind := range []string{"payload", "length", "truncate"} {
										emit(decFreeCase{P: Params{cd[0], cd[1], B, 3, ck, -1, false, false}, Len: n, DecJobs: dj, RB: rb, Bad: bad, Kind: kind})
									}
								}
							}
						}
					}
				}
			}
		})
	})
}
