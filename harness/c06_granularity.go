package main

// C06 Transparent to I/O granularity on both sides. E2: the sizes in which the underlying source
// answers Read calls are chosen by the explorer: every uniform policy k, and every sequence with
// at most 2 deviations from "serve the whole request" (call index x size alphabet).

import (
	"os"
	"os/exec"
	"syscall"
	"time"
	"unsafe"
	"bytes"
	"fmt"
	"io"

	"github.com/flanglet/kanzi-go/v2/bitstream"
	kio "github.com/flanglet/kanzi-go/v2/io"
)

// scriptSrc serves data; call i returns at most sizes[i] bytes (if present), else at most uniform
// bytes (0 = as many as requested).
type scriptSrc struct {
	data    []byte
	off     int
	n       int
	uniform int
	dev     map[int]int
	served  []int
	eofWithData bool // the call that delivers the last bytes returns (n, io.EOF), as many readers do
}

func (s *scriptSrc) Read(p []byte) (int, error) {
	i := s.n
	s.n++
	if s.off >= len(s.data) {
		return 0, io.EOF
	}
	n := min(len(p), len(s.data)-s.off)
	if s.uniform > 0 {
		n = min(n, s.uniform)
	}
	if d, ok := s.dev[i]; ok {
		n = min(n, d)
	}
	copy(p, s.data[s.off:s.off+n])
	s.off += n
	s.served = append(s.served, n)
	if s.eofWithData && s.off >= len(s.data) {
		return n, io.EOF
	}
	return n, nil
}
func (s *scriptSrc) Close() error { return nil }

type granCase struct {
	Level   string `json:"level"` // "bits" | "stream" | "readbuf"
	Prog    int    `json:"prog,omitempty"`
	P       Params `json:"params"`
	Len     int    `json:"len"`
	Jobs    uint   `json:"dec_jobs,omitempty"`
	Uniform int    `json:"uniform"`
	Dev     [][2]int `json:"dev,omitempty"` // (call index, max size)
	RBSeq   []int  `json:"read_buf_seq,omitempty"`
	EOFWithData bool `json:"eof_with_last_bytes,omitempty"`
}

func (g granCase) String() string {
	if g.EOFWithData {
		return fmt.Sprintf("%s|%d|%s|%d|%d|%d|%v|%v|eof-with-data", g.Level, g.Prog, g.P, g.Len, g.Jobs, g.Uniform, g.Dev, g.RBSeq)
	}
	return fmt.Sprintf("%s|%d|%s|%d|%d|%d|%v|%v", g.Level, g.Prog, g.P, g.Len, g.Jobs, g.Uniform, g.Dev, g.RBSeq)
}

func (g granCase) policyClass() string {
	if len(g.Dev) > 0 {
		m8 := true
		for _, d := range g.Dev {
			if d[1]%8 != 0 {
				m8 = false
			}
		}
		if m8 {
			return "short-read-multiple-of-8"
		}
		return "short-read-not-multiple-of-8"
	}
	if g.Uniform == 0 {
		return "whole"
	}
	if g.Uniform%8 == 0 {
		return "uniform-multiple-of-8"
	}
	return "uniform-not-multiple-of-8"
}

// read programs at bitstream level: a list of (kind, bits); kind 0 = ReadBits, 1 = ReadArray
var bitPrograms = [][][2]int{
	{{0, 7}, {1, 4096}, {0, 64}, {1, 800}, {0, 1}, {1, 8192}},
	{{1, 8 * 1500}, {0, 3}, {1, 8*1500 + 5}, {0, 13}},
	{{0, 8}, {0, 8}, {0, 64}, {0, 33}, {1, 256}, {1, 257}, {1, 255}, {1, 64}, {1, 8}, {0, 31}},
	{{0, 1}, {1, 8 * 3000}},
	{{0, 4}, {1, 8*2048 + 4}, {1, 12}, {0, 64}, {0, 64}},
	{{1, 8 * 5000}},
}

func progBits(p [][2]int) int {
	t := 0
	for _, s := range p {
		t += s[1]
	}
	return t
}

func runBitProgram(prog [][2]int, src io.ReadCloser, data []byte) (vals []uint64, arrays [][]byte, reads []uint64, perr string) {
	defer func() {
		if r := recover(); r != nil {
			perr = fmt.Sprint(r)
		}
	}()
	ibs, err := bitstream.NewDefaultInputBitStream(src, 1024)
	if err != nil {
		return nil, nil, nil, err.Error()
	}
	for _, st := range prog {
		if st[0] == 0 {
			vals = append(vals, ibs.ReadBits(uint(st[1])))
		} else {
			b := make([]byte, (st[1]+7)/8)
			ibs.ReadArray(b, uint(st[1]))
			arrays = append(arrays, b)
		}
		reads = append(reads, ibs.Read())
	}
	return
}

func runGran(g granCase) (*Fail, bool) {
	dev := map[int]int{}
	for _, d := range g.Dev {
		dev[d[0]] = d[1]
	}
	pc := g.policyClass()
	switch g.Level {
	case "bits":
		prog := bitPrograms[g.Prog]
		data := shape("random", (progBits(prog)+7)/8+16)
		v0, a0, r0, e0 := runBitProgram(prog, newSrc(data), data)
		if e0 != "" {
			return failf("harness", "baseline program failed: %s", e0), false
		}
		src := &scriptSrc{data: data, uniform: g.Uniform, dev: dev, eofWithData: g.EOFWithData}
		v1, a1, r1, e1 := runBitProgram(prog, src, data)
		if e1 != "" {
			return failf("bitstream-fails-on-short-reads "+pc, "program %d, source answers %v...: %s", g.Prog, head(src.served, 12), e1), true
		}
		if fmt.Sprint(v0) != fmt.Sprint(v1) || fmt.Sprint(r0) != fmt.Sprint(r1) {
			return failf("bitstream-wrong-bits-on-short-reads "+pc, "program %d, source answers %v...: values or Read() counters differ from the whole-read run", g.Prog, head(src.served, 12)), true
		}
		for i := range a0 {
			if !bytes.Equal(a0[i], a1[i]) {
				return failf("bitstream-wrong-bits-on-short-reads "+pc, "program %d, source answers %v...: array %d differs at byte %d", g.Prog, head(src.served, 12), i, firstDiff(a0[i], a1[i])), true
			}
		}
		return nil, g.Uniform > 0 || len(g.Dev) > 0
	case "stream", "readbuf":
		data := shape("text", g.Len)
		stream, _, err := compress(data, g.P)
		if err != nil {
			return failf("harness", "%v", err), false
		}
		src := &scriptSrc{data: stream, uniform: g.Uniform, dev: dev, eofWithData: g.EOFWithData}
		r, err := kio.NewReaderWithCtx(src, map[string]any{"jobs": g.Jobs})
		if err != nil {
			return failf("harness", "%v", err), false
		}
		var out []byte
		var rerr error
		if g.Level == "stream" {
			res := drain(r, 4096, 2)
			out, rerr = res.Out, res.Err
		} else {
			// cyclic sequence of Read buffer lengths
			for i := 0; i < 100000; i++ {
				n := g.RBSeq[i%len(g.RBSeq)]
				buf := make([]byte, n)
				k, err := r.Read(buf)
				out = append(out, buf[:k]...)
				if err == io.EOF {
					break
				}
				if err != nil {
					rerr = err
					break
				}
				if k < n && len(out) < len(data) {
					rerr = fmt.Errorf("Read(%d) returned %d before the end of the data", n, k)
					break
				}
			}
		}
		r.Close()
		cls := fmt.Sprintf("%s codec=%s/%s ck=%d", pc, g.P.Transform, g.P.Entropy, g.P.Checksum)
		if rerr != nil {
			return failf("decode-fails-by-granularity "+cls, "%s: source answered %v...: %v (after %d of %d bytes)", g, head(src.served, 12), rerr, len(out), len(data)), true
		}
		if !bytes.Equal(out, data) {
			return failf("decode-differs-by-granularity "+cls, "%s: source answered %v...: decoded %d bytes, first difference at %d, no error", g, head(src.served, 12), len(out), firstDiff(out, data)), true
		}
		return nil, true
	}
	return failf("harness", "level"), false
}

func head(a []int, n int) []int {
	if len(a) > n {
		return a[:n]
	}
	return a
}

var famGran = NewFamily("C06.policy", runGran)

// ---- the command-line tool reading from a pipe that delivers the bytes in chosen pieces ----

type cliPipeCase struct {
	Dir    string `json:"direction"` // "c" | "d"
	Pieces []int  `json:"first_pieces"`
	Then   int    `json:"then_piece_size"` // size of all later pieces (0 = the rest at once)
	Len    int    `json:"len"`
}

func (c cliPipeCase) String() string { return fmt.Sprintf("%s|%v|%d|%d", c.Dir, c.Pieces, c.Then, c.Len) }

// feedPaced writes data to w in the given pieces; each piece is written only when the reader has
// consumed everything written before (FIONREAD on the pipe), so no read can see more than one piece.
func feedPaced(w *os.File, rd *os.File, data []byte, pieces []int, then int) {
	defer w.Close()
	off := 0
	waitEmpty := func() {
		for i := 0; i < 20000; i++ {
			var n int32
			_, _, e := syscall.Syscall(syscall.SYS_IOCTL, rd.Fd(), 0x541B /* FIONREAD */, uintptr(unsafe.Pointer(&n)))
			if e != 0 || n == 0 {
				return
			}
			time.Sleep(250 * time.Microsecond)
		}
	}
	put := func(k int) bool {
		k = min(k, len(data)-off)
		if k <= 0 {
			return false
		}
		if _, err := w.Write(data[off : off+k]); err != nil {
			return false
		}
		off += k
		waitEmpty()
		return off < len(data)
	}
	for _, k := range pieces {
		if !put(k) {
			return
		}
	}
	for off < len(data) {
		k := then
		if k <= 0 {
			k = len(data) - off
		}
		if !put(k) {
			return
		}
	}
}

func runCLIPiped(data []byte, c cliPipeCase, args ...string) (int, []byte, string) {
	r, w, err := os.Pipe()
	if err != nil {
		return -3, nil, err.Error()
	}
	cmd := exec.Command(cliBin, args...)
	cmd.Stdin = r
	var so, se bytes.Buffer
	cmd.Stdout, cmd.Stderr = &so, &se
	if err := cmd.Start(); err != nil {
		r.Close()
		w.Close()
		return -3, nil, err.Error()
	}
	go feedPaced(w, r, data, c.Pieces, c.Then)
	done := make(chan error, 1)
	go func() { done <- cmd.Wait() }()
	code := 0
	select {
	case err := <-done:
		if err != nil {
			code = -1
			if ee, ok := err.(*exec.ExitError); ok {
				code = ee.ExitCode()
			}
		}
	case <-time.After(5 * time.Minute):
		cmd.Process.Kill()
		code = -2
	}
	r.Close()
	return code, so.Bytes(), trunc(se.String(), 300)
}

var famCLIPipe = NewFamily("C06.cli-pipe", func(c cliPipeCase) (*Fail, bool) {
	data := shape("text", c.Len)
	// reference: the same run with everything delivered at once through a file
	code, msg, packed := runCLI(data, "-c", "-i", "stdin", "-o", "stdout", "-v", "0", "-l", "2", "-j", "2", "-b", "64k")
	if code != 0 {
		return failf("harness-cli", "reference compression failed: %d %s", code, msg), false
	}
	cls := fmt.Sprintf("direction=%s first-piece=%d", c.Dir, append(append([]int{}, c.Pieces...), c.Then)[0])
	if c.Dir == "c" {
		code, got, emsg := runCLIPiped(data, c, "-c", "-i", "stdin", "-o", "stdout", "-v", "0", "-l", "2", "-j", "2", "-b", "64k")
		if code != 0 {
			return failf("cli-fails-by-granularity "+cls, "%s: compressing from a pipe that delivers %v then %d-byte pieces: exit %d %s", c, c.Pieces, c.Then, code, emsg), true
		}
		// the stream may legitimately differ from the file run (size hint); it must decode to the input
		code, emsg, back := runCLI(got, "-d", "-i", "stdin", "-o", "stdout", "-v", "0")
		if code != 0 || !bytes.Equal(back, data) {
			return failf("cli-differs-by-granularity "+cls, "%s: stream written while reading small pieces does not decode to the input (exit %d %s)", c, code, emsg), true
		}
		return nil, true
	}
	code, got, emsg := runCLIPiped(packed, c, "-d", "-i", "stdin", "-o", "stdout", "-v", "0", "-j", "2")
	if code != 0 {
		return failf("cli-fails-by-granularity "+cls, "%s: decompressing from a pipe that delivers %v then %d-byte pieces: exit %d %s (the same bytes decode when delivered at once)", c, c.Pieces, c.Then, code, emsg), true
	}
	if !bytes.Equal(got, data) {
		return failf("cli-differs-by-granularity "+cls, "%s: output differs at %d", c, firstDiff(got, data)), true
	}
	return nil, true
})

func init() {
	register("C06", "fault_enumeration", func(c *Ctx) {
		c.Rule("environment-answer enumeration: the underlying source answers each Read with a size chosen by the explorer. Bitstream level: 6 read programs (ReadBits widths, aligned and unaligned ReadArray of 8..40000 bits) over DefaultInputBitStream(1024) x every uniform policy k in {1..17,64,1000} x every sequence with <= 2 deviations (call index 0..7 x size in {1,3,7,8,9,13,15,16,24}). Stream level: Reader(jobs 1,3) on {NONE, LZ/HUFFMAN, BWT/ANS0} x checksum {0,32} seeds x the same uniform policies and 1-deviation sequences, incl. streams larger than the 256 KiB bitstream buffer. Read side: all sequences of Read buffer lengths over {0,1,7,B-1,B,B+1,4B} of length 1..3 (4 in thorough), applied cyclically. (Write partitions: C04(iii).) Also: the call that delivers the last bytes returns io.EOF with them. The command-line tool (-c and -d, stdin -> stdout) reading from a pipe whose first pieces are 1..9 bytes, runs of single bytes, uniform 7/100/4096/65536/65537-byte pieces, each piece written only after the previous one was consumed (FIONREAD pacing). Oracle: identical bytes, counters and terminal status as the all-at-once run. Non-trivial = at least one short answer")
		c.Assume("a conforming io.Writer cannot accept fewer bytes without an error, so the sink side has no size behaviour beyond the library's own call sizes (faulty sinks: C08)")
		uniforms := []int{0, 1, 2, 3, 4, 5, 6, 7, 8, 9, 10, 11, 12, 13, 14, 15, 16, 17, 64, 1000}
		devSizes := []int{1, 3, 7, 8, 9, 13, 15, 16, 24}
		famGran.Each(c, 0, func(emit func(granCase)) {
			for pi := range bitPrograms {
				for _, u := range uniforms {
					emit(granCase{Level: "bits", Prog: pi, Uniform: u})
					emit(granCase{Level: "bits", Prog: pi, Uniform: u, EOFWithData: true})
				}
				for i := 0; i < 8; i++ {
					for _, s := range devSizes {
						emit(granCase{Level: "bits", Prog: pi, Dev: [][2]int{{i, s}}})
						for j := i + 1; j < 8; j++ {
							for _, s2 := range devSizes {
								emit(granCase{Level: "bits", Prog: pi, Dev: [][2]int{{i, s}, {j, s2}}})
							}
						}
					}
				}
			}
			const B = 1024
			for _, cd := range [][2]string{{"NONE", "NONE"}, {"LZ", "HUFFMAN"}, {"BWT", "ANS0"}} {
				for _, ck := range []uint{0, 32} {
					for _, j := range []uint{1, 3} {
						p := Params{cd[0], cd[1], B, 2, ck, -1, false, false}
						for _, u := range uniforms {
							emit(granCase{Level: "stream", P: p, Len: 5*B + 300, Jobs: j, Uniform: u})
							emit(granCase{Level: "stream", P: p, Len: 5*B + 300, Jobs: j, Uniform: u, EOFWithData: true})
						}
					}
				}
				// a stream larger than the 256 KiB input buffer (several refills)
				pbig := Params{cd[0], cd[1], 65536, 2, 32, -1, false, false}
				n := 700000
				if cd[0] == "NONE" {
					n = 600000
				}
				for _, u := range []int{0, 4096, 4097, 65536, 100000, 262143, 262145} {
					emit(granCase{Level: "stream", P: pbig, Len: n, Jobs: 2, Uniform: u})
				}
				for i := 0; i < 4; i++ {
					for _, s := range []int{1, 7, 8, 1000, 4096, 262143} {
						emit(granCase{Level: "stream", P: pbig, Len: n, Jobs: 2, Dev: [][2]int{{i, s}}})
					}
				}
			}
			_ = 0
			// Read buffer length sequences
			alpha := []int{0, 1, 7, B - 1, B, B + 1, 4 * B}
			maxLen := pick(c, 3, 4)
			var rec func(seq []int)
			rec = func(seq []int) {
				if len(seq) > 0 {
					pos := false
					for _, x := range seq {
						pos = pos || x > 0
					}
					if pos {
						for _, j := range []uint{1, 2, 3} {
							emit(granCase{Level: "readbuf", P: Params{"LZ", "HUFFMAN", B, 2, 32, -1, false, false}, Len: 7*B + 5, Jobs: j, RBSeq: append([]int{}, seq...)})
						}
					}
				}
				if len(seq) == maxLen {
					return
				}
				for _, a := range alpha {
					rec(append(seq, a))
				}
			}
			rec(nil)
		})
		// the command-line tool reading stdin from a pipe, first pieces of 1..9 bytes, runs of single bytes
		if err := buildCLI(); err != nil {
			c.HarnessError(err.Error())
			return
		}
		defer os.Remove(cliBin)
		famCLIPipe.Each(c, 8, func(emit func(cliPipeCase)) {
			for _, d := range []string{"d", "c"} {
				for first := 1; first <= 9; first++ {
					emit(cliPipeCase{Dir: d, Pieces: []int{first}, Then: 0, Len: 200000})
				}
				emit(cliPipeCase{Dir: d, Pieces: []int{1, 19}, Then: 0, Len: 200000})
				emit(cliPipeCase{Dir: d, Pieces: []int{3, 1, 16, 5}, Then: 4096, Len: 200000})
				ones := make([]int, 40)
				for i := range ones {
					ones[i] = 1
				}
				emit(cliPipeCase{Dir: d, Pieces: ones, Then: 0, Len: 200000})
				for _, u := range []int{7, 100, 4096, 65536, 65537} {
					emit(cliPipeCase{Dir: d, Then: u, Len: 30000})
				}
			}
		})
	})
}
