package main

// E1b: the TLA+ model of the block hand-off (models/HandOff.tla) bound to the implementation.
//
//  1. TLC enumerates the model's complete state graph for N = 1..3 tasks (Record = TRUE: every
//     state carries the event that led to it) and dumps it (dot).
//  2. impl -> model: every execution the E1 explorer produces for the conformance scenarios (all
//     interleavings, with and without failures) is cut into batches, abstracted to the model's
//     events and walked through the graph. A step the graph does not have = the model does not
//     describe this tree.
//  3. model -> impl: for every edge of the graph a shortest path from an initial state through that
//     edge is turned into a scenario (failure placement, end marker position, bad payload) and a
//     thread-id schedule, replayed on the real code under the controlled scheduler, and the events
//     the implementation produces must be exactly the path's labels.
//  4. Only when 2 and 3 hold, TLC's verdict on the same spec for larger N (4; 5 and 6 in thorough)
//     - mutual exclusion, order, cancel is final and sticks, join complete, termination under weak
//     fairness - is counted as evidence for C07. A conformance failure is NOT a violation: the model
//     part is then skipped (reported as such) and C07 rests on the direct exploration alone.

import (
	"bufio"
	"bytes"
	"encoding/json"
	"fmt"
	"os"
	"os/exec"
	"path/filepath"
	"regexp"
	"strconv"
	"strings"
	"time"

	"github.com/flanglet/kanzi-go/v2/zverif/vcoop"
)

type tlaEv struct {
	K    int
	Kind string
	V    int
}

func (e tlaEv) String() string { return fmt.Sprintf("<<%d,%s,%d>>", e.K, e.Kind, e.V) }

type tlaNode struct {
	token  int
	pc     []string
	wg     int
	env    [4]int // ft fs eos bad
	last   tlaEv
	succ   []int
	isInit bool
}

type tlaGraph struct {
	kind  string
	n     int
	nodes []tlaNode
	inits []int
	edges int
}

var (
	reNode  = regexp.MustCompile(`^(-?\d+) \[label="(.*)"`)
	reEdge  = regexp.MustCompile(`^(-?\d+) -> (-?\d+)`)
	reLast  = regexp.MustCompile(`last = <<(-?\d+), \\"([a-z]+)\\", (-?\d+)>>`)
	reToken = regexp.MustCompile(`token = (-?\d+)`)
	reWg    = regexp.MustCompile(`wg = (-?\d+)`)
	rePc    = regexp.MustCompile(`pc = <<([^>]*)>>`)
	reEnv   = regexp.MustCompile(`env = \[ft \|-> (\d+), fs \|-> (\d+), eos \|-> (\d+), bad \|-> (\d+)\]`)
)

func parseDot(path, kind string, n int) (*tlaGraph, error) {
	f, err := os.Open(path)
	if err != nil {
		return nil, err
	}
	defer f.Close()
	g := &tlaGraph{kind: kind, n: n}
	idx := map[string]int{}
	sc := bufio.NewScanner(f)
	sc.Buffer(make([]byte, 1<<20), 1<<24)
	atoi := func(s string) int { v, _ := strconv.Atoi(s); return v }
	type edge struct{ a, b string }
	var edges []edge
	for sc.Scan() {
		l := sc.Text()
		if m := reEdge.FindStringSubmatch(l); m != nil {
			edges = append(edges, edge{m[1], m[2]})
			continue
		}
		m := reNode.FindStringSubmatch(l)
		if m == nil {
			continue
		}
		if _, ok := idx[m[1]]; ok {
			continue
		}
		lab := m[2]
		var nd tlaNode
		lm := reLast.FindStringSubmatch(lab)
		tm := reToken.FindStringSubmatch(lab)
		wm := reWg.FindStringSubmatch(lab)
		pm := rePc.FindStringSubmatch(lab)
		em := reEnv.FindStringSubmatch(lab)
		if lm == nil || tm == nil || wm == nil || pm == nil || em == nil {
			return nil, fmt.Errorf("cannot parse state label %q", trunc(lab, 200))
		}
		nd.last = tlaEv{atoi(lm[1]), lm[2], atoi(lm[3])}
		nd.token, nd.wg = atoi(tm[1]), atoi(wm[1])
		for _, p := range strings.Split(pm[1], ",") {
			nd.pc = append(nd.pc, strings.Trim(strings.TrimSpace(p), `\"`))
		}
		for i := 0; i < 4; i++ {
			nd.env[i] = atoi(em[i+1])
		}
		nd.isInit = nd.last.Kind == "init"
		idx[m[1]] = len(g.nodes)
		if nd.isInit {
			g.inits = append(g.inits, len(g.nodes))
		}
		g.nodes = append(g.nodes, nd)
	}
	seen := map[[2]int]bool{}
	for _, e := range edges {
		a, ok1 := idx[e.a]
		b, ok2 := idx[e.b]
		if !ok1 || !ok2 {
			return nil, fmt.Errorf("edge refers to an unknown state")
		}
		if a == b || seen[[2]int{a, b}] {
			continue // stuttering step of a finished batch / duplicate line
		}
		seen[[2]int{a, b}] = true
		g.nodes[a].succ = append(g.nodes[a].succ, b)
		g.edges++
	}
	if len(g.inits) == 0 || len(g.nodes) == 0 {
		return nil, fmt.Errorf("empty state graph in %s", path)
	}
	return g, nil
}

const tlaJar = "/opt/veriftools/tla/tla2tools.jar:/opt/veriftools/tla/CommunityModules-deps.jar"

// runTLC runs TLC on models/HandOff.tla in a scratch directory; dump != "" writes the state graph.
func runTLC(dir, kind string, n int, record bool, dump string, workers int, timeout time.Duration) (string, error) {
	os.MkdirAll(dir, 0o755)
	spec, err := os.ReadFile(filepath.Join(verifRoot, "models", "HandOff.tla"))
	if err != nil {
		return "", err
	}
	os.WriteFile(filepath.Join(dir, "HandOff.tla"), spec, 0o644)
	tmpl := "HandOff.cfg.tmpl"
	if dump != "" {
		tmpl = "HandOff.dump.cfg.tmpl"
	}
	cfg, err := os.ReadFile(filepath.Join(verifRoot, "models", tmpl))
	if err != nil {
		return "", err
	}
	rec := "FALSE"
	if record {
		rec = "TRUE"
	}
	c := strings.NewReplacer("@N@", fmt.Sprint(n), "@KIND@", kind, "@RECORD@", rec).Replace(string(cfg))
	if x := os.Getenv("KZMC_E1B_EXTRA_INVARIANT"); x != "" && dump == "" {
		c = strings.Replace(c, "INVARIANTS ", "INVARIANTS "+x+" ", 1) // self-test hook, see HandOff.tla
	}
	os.WriteFile(filepath.Join(dir, "HandOff.cfg"), []byte(c), 0o644)
	args := []string{"-Xmx4g", "-XX:+UseParallelGC", "-Djava.io.tmpdir=" + dir, "-cp", tlaJar, "tlc2.TLC", "-workers", fmt.Sprint(workers), "-metadir", filepath.Join(dir, "meta")}
	if dump != "" {
		args = append(args, "-dump", "dot", dump)
	}
	args = append(args, "HandOff.tla")
	cmd := exec.Command("java", args...)
	cmd.Dir = dir
	var out bytes.Buffer
	cmd.Stdout, cmd.Stderr = &out, &out
	if err := cmd.Start(); err != nil {
		return "", err
	}
	done := make(chan error, 1)
	go func() { done <- cmd.Wait() }()
	select {
	case err = <-done:
	case <-time.After(timeout):
		cmd.Process.Kill()
		<-done
		return out.String(), fmt.Errorf("TLC did not finish within %v", timeout)
	}
	return out.String(), err
}

var reTLCStates = regexp.MustCompile(`(\d+) states generated, (\d+) distinct states found, 0 states left on queue`)

// ---- impl -> model ----

// abstractBatches cuts an execution's event list into batches and maps each to model events.
// A batch = the task threads started between two passes of the calling goroutine through Wait.
func abstractBatches(evs []evRec) (batches [][]tlaEv, sizes []int) {
	lastToken := int64(0) // value of the shared counter after the last write by a task
	first := int64(0)     // its value when the current batch started
	var cur []evRec
	flush := func() {
		ids := map[int]bool{}
		minID := 1 << 30
		for _, e := range cur {
			if e.T != 0 {
				ids[e.T] = true
				minID = min(minID, e.T)
			}
		}
		if len(ids) == 0 {
			cur = nil
			return
		}
		base := minID - 1
		streamN := map[int]int{}
		var out []tlaEv
		norm := func(v int64) int {
			if v == -1 {
				return -1
			}
			return int(v - first)
		}
		for i := 0; i < len(cur); i++ {
			e := cur[i]
			k := e.T - base
			if e.T == 0 {
				if e.Kind == vcoop.OpWgWait {
					out = append(out, tlaEv{0, "wgwait", 0})
				}
				continue
			}
			faultNext := i+1 < len(cur) && cur[i+1].Kind == vcoop.OpFault && cur[i+1].T == e.T
			switch e.Kind {
			case vcoop.OpStart:
				if faultNext {
					out = append(out, tlaEv{k, "startfault", 0})
				} else {
					out = append(out, tlaEv{k, "start", 0})
				}
			case vcoop.OpLoad:
				out = append(out, tlaEv{k, "load", norm(e.Val)})
			case vcoop.OpStream:
				streamN[e.T]++
				if faultNext {
					out = append(out, tlaEv{k, "streamfault", streamN[e.T]})
				} else {
					out = append(out, tlaEv{k, "stream", streamN[e.T]})
				}
			case vcoop.OpCAS:
				out = append(out, tlaEv{k, "cas", norm(e.Val)})
			case vcoop.OpStore:
				out = append(out, tlaEv{k, "store", norm(e.Val)})
			case vcoop.OpWgDone:
				out = append(out, tlaEv{k, "wgdone", int(e.Val)})
			case vcoop.OpSwap, vcoop.OpAdd, vcoop.OpLock, vcoop.OpUnlock, vcoop.OpRLock, vcoop.OpRUnlock:
				out = append(out, tlaEv{k, e.Kind.String(), norm(e.Val)}) // not in the model: the walk stops here
			}
		}
		batches = append(batches, out)
		sizes = append(sizes, len(ids))
		cur = nil
	}
	inBatch := false
	for _, e := range evs {
		if e.T == 0 {
			// the calling goroutine: only its pass through Wait belongs to the model
			if inBatch && e.Kind == vcoop.OpWgWait {
				cur = append(cur, e)
				flush()
				inBatch = false
			}
			continue
		}
		if !inBatch {
			inBatch = true
			first = lastToken
		}
		switch e.Kind {
		case vcoop.OpStore, vcoop.OpCAS, vcoop.OpSwap, vcoop.OpAdd:
			lastToken = e.Val // tasks write no other atomic than the shared counter
		}
		cur = append(cur, e)
	}
	if inBatch {
		flush()
	}
	return
}

// walk feeds the events of one batch to the graph (subset construction over the initial states:
// the environment choice - who fails where - is not known in advance). Returns "" or a mismatch.
func (g *tlaGraph) walk(evs []tlaEv, hit map[int]bool) string {
	cur := append([]int{}, g.inits...)
	for i, e := range evs {
		var next []int
		seen := map[int]bool{}
		for _, u := range cur {
			matched := false
			for _, v := range g.nodes[u].succ {
				if g.nodes[v].last == e {
					if !seen[v] {
						seen[v] = true
						next = append(next, v)
					}
					matched = true
				}
			}
			if !matched && e.Kind == "load" && e.K >= 1 && e.K <= g.n {
				// a load that finds neither its turn nor the cancel value: spinning, a stuttering step
				nd := g.nodes[u]
				if nd.pc[e.K-1] == "spin" && e.V == nd.token && e.V != e.K-1 && e.V != -1 {
					if !seen[u] {
						seen[u] = true
						next = append(next, u)
					}
				}
			}
		}
		if len(next) == 0 {
			ctx := ""
			if len(cur) > 0 {
				nd := g.nodes[cur[0]]
				ctx = fmt.Sprintf(" in model state token=%d pc=%v wg=%d env=%v", nd.token, nd.pc, nd.wg, nd.env)
			}
			return fmt.Sprintf("step %d %v has no counterpart%s (batch of %d %s tasks; trace %v)", i, e, ctx, g.n, g.kind, evs[:i+1])
		}
		cur = next
		if hit != nil {
			for _, u := range cur {
				hit[u] = true
			}
		}
	}
	return ""
}

var e1bGraphs = map[string]*tlaGraph{}

func e1bGraph(dir, kind string, n int) (*tlaGraph, error) {
	key := fmt.Sprintf("%s%d", kind, n)
	if g, ok := e1bGraphs[key]; ok {
		return g, nil
	}
	g, err := parseDot(filepath.Join(dir, key+".dot"), kind, n)
	if err != nil {
		return nil, err
	}
	e1bGraphs[key] = g
	return g, nil
}

var e1bHit = map[string]map[int]bool{}

func (x *e1Explorer) conform(ex *e1Exec) {
	if x.res.ModelMismatch != "" {
		return
	}
	batches, sizes := abstractBatches(ex.evs)
	for i, b := range batches {
		g, err := e1bGraph(x.sp.ModelDir, x.sp.Kind, sizes[i])
		if err != nil {
			x.res.ModelMismatch = "no state graph for this batch size: " + err.Error()
			return
		}
		key := fmt.Sprintf("%s%d", x.sp.Kind, sizes[i])
		if e1bHit[key] == nil {
			e1bHit[key] = map[int]bool{}
		}
		if mm := g.walk(b, e1bHit[key]); mm != "" {
			x.res.ModelMismatch = mm
			return
		}
		x.res.BatchesWalked++
	}
	x.res.TracesWalked++
	n := 0
	for _, h := range e1bHit {
		n += len(h)
	}
	x.res.ModelNodesHit = n
}

// ---- model -> impl ----

type e1bReplayResult struct {
	Kind       string `json:"kind"`
	N          int    `json:"n"`
	Nodes      int    `json:"nodes"`
	Edges      int    `json:"edges"`
	Replayed   int    `json:"edges_replayed"`
	Steps      int    `json:"steps_compared"`
	Mismatch   string `json:"mismatch,omitempty"`
	HarnessErr string `json:"harness_error,omitempty"`
	WallS      float64 `json:"wall_s"`
}

// scenario for a model environment
func e1bSpec(kind string, n int, env [4]int) e1Spec {
	ft, fs, eos, bad := env[0], env[1], env[2], env[3]
	var sp e1Spec
	if kind == "enc" {
		sp = encSpec("model replay enc", uint(n), n, 0, -1, "bounded", -1)
		if n == 1 {
			sp.Jobs = 2
			sp.Blocks = 1
		}
	} else {
		nb := n
		if eos > 0 {
			nb = eos - 1
		}
		sp = decSpec("model replay dec", uint(n), nb, 0, "bounded", -1)
		if n == 1 {
			sp.Jobs = 1
		}
		if bad > 0 {
			sp.CorruptBlock, sp.CorruptKind = bad, "payload"
		}
	}
	if ft > 0 {
		sp.FaultThread = ft
		if fs == 0 {
			sp.FaultSite = "compute"
		} else {
			sp.FaultSite, sp.FaultNth = "stream", fs-1
		}
	}
	return sp
}

func e1bReplayAll(dir, kind string, n int) *e1bReplayResult {
	t0 := time.Now()
	res := &e1bReplayResult{Kind: kind, N: n}
	g, err := parseDot(filepath.Join(dir, fmt.Sprintf("%s%d.dot", kind, n)), kind, n)
	if err != nil {
		res.HarnessErr = err.Error()
		return res
	}
	res.Nodes, res.Edges = len(g.nodes), g.edges
	// BFS tree from the initial states
	parent := make([]int, len(g.nodes))
	for i := range parent {
		parent[i] = -2
	}
	var queue []int
	for _, i := range g.inits {
		parent[i] = -1
		queue = append(queue, i)
	}
	for len(queue) > 0 {
		u := queue[0]
		queue = queue[1:]
		for _, v := range g.nodes[u].succ {
			if parent[v] == -2 {
				parent[v] = u
				queue = append(queue, v)
			}
		}
	}
	prepCache := map[[4]int][]*e1Prep{}
	for u := range g.nodes {
		if parent[u] == -2 {
			continue
		}
		for _, v := range g.nodes[u].succ {
			// path: init ... u, then v
			var rev []int
			for w := u; w != -1; w = parent[w] {
				rev = append(rev, w)
			}
			var path []tlaEv
			for i := len(rev) - 2; i >= 0; i-- {
				path = append(path, g.nodes[rev[i]].last)
			}
			path = append(path, g.nodes[v].last)
			env := g.nodes[u].env
			sp := e1bSpec(kind, n, env)
			if kind == "dec" && n == 1 && env[2] == 0 {
				// jobs=1 readers have no second batch task to read the end marker in this batch: fine
			}
			preps, ok := prepCache[env]
			if !ok {
				p, err := e1PrepareAll(&sp)
				if err != nil {
					res.HarnessErr = fmt.Sprintf("prepare env %v: %v", env, err)
					return res
				}
				preps = p
				prepCache[env] = p
			}
			dir := make([]int, 0, len(path))
			for _, e := range path {
				dir = append(dir, e.K)
			}
			e1Directed = dir
			ex := e1RunOnce(&sp, preps, nil, nil, false, true)
			e1Directed = nil
			if ex.sched.DirErr != "" {
				res.Mismatch = fmt.Sprintf("model path %v (env %v): %s", path, env, ex.sched.DirErr)
				return res
			}
			if ex.sched.Aborted != nil {
				res.Mismatch = fmt.Sprintf("model path %v (env %v): the implementation aborted: %s", path, env, ex.sched.Aborted.Reason)
				return res
			}
					batches, sizes := abstractBatches(ex.evs)
			if len(batches) == 0 || sizes[0] != n {
				res.Mismatch = fmt.Sprintf("model path %v (env %v): the implementation ran a first batch of %v tasks, the model has %d", path, env, sizes, n)
				return res
			}
			got := batches[0]
			if len(got) < len(path) {
				res.Mismatch = fmt.Sprintf("model path %v (env %v): the implementation produced only %v", path, env, got)
				return res
			}
			for i := range path {
				if got[i] != path[i] {
					res.Mismatch = fmt.Sprintf("model path (env %v) step %d: model %v, implementation %v; path %v, implementation %v", env, i, path[i], got[i], path, got[:len(path)])
					return res
				}
			}
			res.Replayed++
			res.Steps += len(path)
		}
	}
	res.WallS = time.Since(t0).Seconds()
	return res
}

func init() {
	workerCmds["e1bworker"] = func(args []string) {
		n, _ := strconv.Atoi(args[2])
		res := e1bReplayAll(args[0], args[1], n)
		out, _ := json.Marshal(res)
		os.Stdout.Write(out)
	}
}

func init() {
	// kzmc e1btest [quick|thorough]: the model part alone (development aid)
	workerCmds["e1btest"] = func(args []string) {
		tier := "quick"
		if len(args) > 0 {
			tier = args[0]
		}
		os.Setenv("KZMC_NO_EVIDENCE", "1")
		c := newCtx("C07", tier, "model_checking")
		e1bRun(c)
		js, _ := json.MarshalIndent(c.extra["model_HandOff_tla"], "", " ")
		fmt.Println(string(js))
		fmt.Println("capped:", c.capped, "harness errors:", c.harnessErr, "violations:", len(c.viol))
	}
}

// ---- driver, called from C07 ----

type e1bSummary struct {
	Graphs       map[string]string `json:"state_graphs"` // "enc3": "nodes/edges"
	TracesWalked int               `json:"implementation_traces_walked_through_model"`
	Batches      int               `json:"batches_walked"`
	EdgesReplayed int              `json:"model_edges_replayed_on_implementation"`
	StepsCompared int              `json:"model_steps_compared"`
	Conformance  string            `json:"conformance"`
	TLC          map[string]string `json:"tlc_verification"`
}

// e1bRun returns the conformance scenarios' results folded into c, and whether the model part counts.
func e1bRun(c *Ctx) {
	sum := &e1bSummary{Graphs: map[string]string{}, TLC: map[string]string{}}
	defer func() { c.Extra("model_HandOff_tla", sum) }()
	if _, err := exec.LookPath("java"); err != nil {
		sum.Conformance = "skipped: no java runtime (TLC) on this machine"
		c.Capped("TLA+ model part skipped: java not found")
		return
	}
	if exe, err := os.Executable(); err == nil {
		if info, err := os.ReadFile(exe + ".info"); err == nil && !strings.Contains(string(info), "uncontrolled=0") {
			sum.Conformance = "skipped: the code under test synchronises through constructs the scheduler does not own (" + strings.TrimSpace(string(info)) + "); directed replays are not possible"
			c.Capped("TLA+ model part skipped: uncontrolled synchronisation in the code under test")
			return
		}
	}
	dir, err := os.MkdirTemp(filepath.Join(verifRoot, "build"), "tla.")
	if err != nil {
		c.HarnessError("cannot create scratch dir: " + err.Error())
		return
	}
	defer os.RemoveAll(dir)
	// 1. state graphs for N = 1..3
	type job struct {
		kind string
		n    int
	}
	var jobs []job
	for _, k := range []string{"enc", "dec"} {
		for n := 1; n <= 3; n++ {
			jobs = append(jobs, job{k, n})
		}
	}
	type gres struct {
		j   job
		out string
		err error
	}
	ch := make(chan gres, len(jobs))
	for _, j := range jobs {
		go func(j job) {
			out, err := runTLC(filepath.Join(dir, fmt.Sprintf("g-%s%d", j.kind, j.n)), j.kind, j.n, true, filepath.Join(dir, fmt.Sprintf("%s%d.dot", j.kind, j.n)), 2, 10*time.Minute)
			ch <- gres{j, out, err}
		}(j)
	}
	for range jobs {
		r := <-ch
		if r.err != nil || !strings.Contains(r.out, "No error has been found") {
			c.HarnessError(fmt.Sprintf("TLC failed on the model itself (%s N=%d): %v %s", r.j.kind, r.j.n, r.err, trunc(lastLines(r.out, 12), 1200)))
			return
		}
	}
	// 2. impl -> model: conformance scenarios (all interleavings)
	var specs []e1Spec
	addc := func(s e1Spec) {
		s.ModelDir = dir
		s.Oracles = c07Oracles
		s.MaxSecs = pick(c, 120, 900)
		s.Name = "model-conformance " + s.Name
		specs = append(specs, s)
	}
	addc(encSpec("enc j2 3blk+tail", 2, 3, 100, -1, "sleep", -1))
	addc(encSpec("enc j3 3blk", 3, 3, 0, -1, "sleep", -1))
	addc(encSpec("enc j3 4blk+tail", 3, 4, 100, -1, "sleep", -1))
	addc(decSpec("dec j2 3blk+tail", 2, 3, 100, "sleep", -1))
	addc(decSpec("dec j3 2blk", 3, 2, 0, "sleep", -1))
	addc(decSpec("dec j3 3blk+tail", 3, 3, 100, "sleep", -1))
	for nb := 0; nb <= 3; nb++ {
		addc(decSpec(fmt.Sprintf("dec j3 %dblk end marker position", nb), 3, nb, 0, "sleep", -1))
	}
	for t := 1; t <= 3; t++ {
		for _, st := range []struct {
			site string
			nth  int
		}{{"compute", 0}, {"stream", 0}, {"stream", 1}, {"stream", 2}} {
			s := encSpec(fmt.Sprintf("enc j3 3blk fault T%d %s#%d", t, st.site, st.nth), 3, 3, 0, -1, "sleep", -1)
			s.FaultThread, s.FaultSite, s.FaultNth = t, st.site, st.nth
			addc(s)
			if st.site == "stream" {
				s = decSpec(fmt.Sprintf("dec j3 3blk fault T%d stream#%d", t, st.nth), 3, 3, 0, "sleep", -1)
				s.FaultThread, s.FaultSite, s.FaultNth = t, "stream", st.nth
				addc(s)
			}
		}
		s := decSpec(fmt.Sprintf("dec j3 3blk block %d bad payload", t), 3, 3, 0, "sleep", -1)
		s.CorruptBlock, s.CorruptKind = t, "payload"
		addc(s)
	}
	results := e1RunAll(c, specs, 16)
	mismatch := ""
	for _, r := range results {
		sum.TracesWalked += r.TracesWalked
		sum.Batches += r.BatchesWalked
		if r.ModelMismatch != "" && mismatch == "" {
			mismatch = r.Spec.Name + ": " + r.ModelMismatch
		}
		if r.Capped != "" && mismatch == "" && r.ModelMismatch == "" && r.TracesWalked == 0 {
			mismatch = r.Spec.Name + ": exploration not completed (" + r.Capped + ")"
		}
	}
	// 3. model -> impl: every edge of every graph replayed on the implementation
	exe, _ := os.Executable()
	rch := make(chan *e1bReplayResult, len(jobs))
	for _, j := range jobs {
		go func(j job) {
			cmd := exec.Command(exe, "e1bworker", dir, j.kind, fmt.Sprint(j.n))
			cmd.Env = append(os.Environ(), "GOMAXPROCS=1")
			var stdout, stderr bytes.Buffer
			cmd.Stdout, cmd.Stderr = &stdout, &stderr
			done := make(chan error, 1)
			cmd.Start()
			go func() { done <- cmd.Wait() }()
			var r e1bReplayResult
			select {
			case werr := <-done:
				if err := json.Unmarshal(stdout.Bytes(), &r); err != nil || werr != nil {
					r = e1bReplayResult{Kind: j.kind, N: j.n, HarnessErr: fmt.Sprintf("replay worker failed (%v): %s", werr, trunc(stderr.String(), 600))}
				}
			case <-time.After(15 * time.Minute):
				cmd.Process.Kill()
				<-done
				r = e1bReplayResult{Kind: j.kind, N: j.n, HarnessErr: "replay worker watchdog"}
			}
			rch <- &r
		}(j)
	}
	for range jobs {
		r := <-rch
		sum.Graphs[fmt.Sprintf("%s%d", r.Kind, r.N)] = fmt.Sprintf("%d states / %d transitions", r.Nodes, r.Edges)
		sum.EdgesReplayed += r.Replayed
		sum.StepsCompared += r.Steps
		if r.HarnessErr != "" {
			c.HarnessError("model replay: " + r.HarnessErr)
			return
		}
		if r.Mismatch != "" && mismatch == "" {
			mismatch = fmt.Sprintf("model -> implementation (%s N=%d): %s", r.Kind, r.N, r.Mismatch)
		}
		if r.Mismatch == "" && r.Replayed != r.Edges {
			c.HarnessError(fmt.Sprintf("model replay %s N=%d covered %d of %d transitions", r.Kind, r.N, r.Replayed, r.Edges))
		}
	}
	if mismatch != "" {
		sum.Conformance = "FAILED - the model does not describe this tree; the model-based part is skipped and C07 rests on the direct exploration: " + trunc(mismatch, 1500)
		c.Capped("TLA+ model of the hand-off does not conform to this tree (not a violation by itself): " + trunc(mismatch, 300))
		return
	}
	sum.Conformance = fmt.Sprintf("holds in both directions: %d implementation traces (%d batches) accepted by the model's state graph; all %d model transitions reproduced step by step on the implementation", sum.TracesWalked, sum.Batches, sum.EdgesReplayed)
	c.AddStates(0, 0, int64(sum.EdgesReplayed))
	// 4. TLC on larger N, liveness included
	type vjob struct {
		kind string
		n    int
	}
	var vjobs []vjob
	for _, k := range []string{"enc", "dec"} {
		for _, n := range pick(c, []int{4}, []int{4, 5, 6}) {
			vjobs = append(vjobs, vjob{k, n})
		}
	}
	type vres struct {
		j   vjob
		out string
		err error
	}
	vch := make(chan vres, len(vjobs))
	sem := make(chan struct{}, 3)
	for _, j := range vjobs {
		go func(j vjob) {
			sem <- struct{}{}
			defer func() { <-sem }()
			out, err := runTLC(filepath.Join(dir, fmt.Sprintf("v-%s%d", j.kind, j.n)), j.kind, j.n, false, "", 4, pick(c, 10*time.Minute, 90*time.Minute))
			vch <- vres{j, out, err}
		}(j)
	}
	for range vjobs {
		r := <-vch
		key := fmt.Sprintf("%s N=%d", r.j.kind, r.j.n)
		switch {
		case strings.Contains(r.out, "No error has been found"):
			m := reTLCStates.FindStringSubmatch(r.out)
			st := ""
			if m != nil {
				st = fmt.Sprintf(": %s distinct states, %s generated", m[2], m[1])
				d, _ := strconv.ParseInt(m[2], 10, 64)
				g, _ := strconv.ParseInt(m[1], 10, 64)
				c.AddStates(d, g, 0)
			}
			sum.TLC[key] = "MutualExclusion, InOrder, CancelIsFinal, CancelSticks, JoinIsComplete, CleanRunPassesAll, FailureLeavesCancel, Termination (weak fairness): no error" + st
		case r.err != nil && strings.Contains(fmt.Sprint(r.err), "did not finish"):
			sum.TLC[key] = "not completed: " + r.err.Error()
			c.Capped("TLC " + key + " not completed")
		case strings.Contains(r.out, "is violated") || strings.Contains(r.out, "violated"):
			// The model conforms to the code for N <= 3 and TLC finds a counterexample for a larger N.
			// It is believed only if the implementation reproduces it: TLC is run again with the events
			// recorded in the states, the trace becomes a directed schedule (+ failure placement), and
			// the real code runs it under the monitor.
			verdict, detail, cs := e1bConfirm(dir, r.j.kind, r.j.n, exe)
			sum.TLC[key] = "COUNTEREXAMPLE from TLC; on the implementation: " + verdict + " - " + trunc(detail, 2500)
			if verdict == "reproduced" {
				c.Violate("E1b.model", cs, &Fail{FP: "model-counterexample-reproduced " + key, Detail: "TLC found a violation of the hand-off properties for " + key + " on a model that conforms to this tree for N<=3, and the real code reproduces it when run with the trace's schedule: " + trunc(detail, 1500)})
			} else {
				c.Capped("TLC counterexample for " + key + " was not reproduced by the implementation (" + verdict + "): the model does not describe this tree for that N; not a violation")
			}
		default:
			c.HarnessError("TLC " + key + ": " + trunc(lastLines(r.out, 15), 1000))
		}
	}
}

type e1bCex struct {
	Spec     e1Spec `json:"spec"`
	Directed []int  `json:"directed_thread_ids"`
}

// replay of a confirmed model counterexample: the directed schedule on the implementation
var famE1b = NewFamily("E1b.model", func(cx e1bCex) (*Fail, bool) {
	js, _ := json.Marshal(cx)
	exe, _ := os.Executable()
	out, err := exec.Command(exe, "e1bcexworker", string(js)).Output()
	var res struct {
		Viols   map[string]string `json:"violations"`
		Outcome string            `json:"outcome"`
		DirErr  string            `json:"directed_error"`
	}
	if e := json.Unmarshal(out, &res); e != nil || err != nil {
		return failf("harness", "replay worker: %v %v", err, e), true
	}
	for tag, d := range res.Viols {
		return failf(tag+" "+cx.Spec.Name, "%s (outcome %s)", d, res.Outcome), true
	}
	return nil, true
})

func init() {
	workerCmds["e1bcexworker"] = func(args []string) {
		var cx e1bCex
		if err := json.Unmarshal([]byte(args[0]), &cx); err != nil {
			os.Exit(2)
		}
		preps, err := e1PrepareAll(&cx.Spec)
		if err != nil {
			fmt.Printf(`{"directed_error":%q}`, err.Error())
			return
		}
		e1Directed = cx.Directed
		ex := e1RunOnce(&cx.Spec, preps, nil, nil, false, true)
		e1Directed = nil
		out, _ := json.Marshal(map[string]any{"violations": ex.viols, "outcome": ex.outcome, "directed_error": ex.sched.DirErr})
		os.Stdout.Write(out)
	}
}

var (
	reTraceLast = regexp.MustCompile(`last = <<(-?\d+), "([a-z]+)", (-?\d+)>>`)
	reTraceEnv  = regexp.MustCompile(`env = \[ft \|-> (\d+), fs \|-> (\d+), eos \|-> (\d+), bad \|-> (\d+)\]`)
)

// e1bConfirm re-runs TLC with Record = TRUE for (kind, n), turns the error trace into a scenario and
// a directed schedule and runs it on the implementation. verdict: "reproduced" | "not reproduced" |
// "no trace".
func e1bConfirm(dir, kind string, n int, exe string) (verdict, detail string, cs e1bCex) {
	out, _ := runTLC(filepath.Join(dir, fmt.Sprintf("cex-%s%d", kind, n)), kind, n, true, "", 4, 60*time.Minute)
	idx := strings.Index(out, "Error:")
	if idx < 0 {
		return "no trace", "TLC with recorded events reported no error", cs
	}
	var env [4]int
	var directed []int
	var labels []string
	for _, blk := range strings.Split(out[idx:], "\nState ")[1:] {
		if m := reTraceEnv.FindStringSubmatch(blk); m != nil {
			for i := 0; i < 4; i++ {
				env[i], _ = strconv.Atoi(m[i+1])
			}
		}
		m := reTraceLast.FindStringSubmatch(blk)
		if m == nil || m[2] == "init" {
			continue
		}
		k, _ := strconv.Atoi(m[1])
		directed = append(directed, k)
		labels = append(labels, fmt.Sprintf("<<%s,%s,%s>>", m[1], m[2], m[3]))
	}
	if len(directed) == 0 {
		return "no trace", trunc(lastLines(out, 20), 800), cs
	}
	sp := e1bSpec(kind, n, env)
	sp.Name = fmt.Sprintf("model counterexample %s N=%d env=%v", kind, n, env)
	sp.Oracles = c07Oracles
	cs = e1bCex{Spec: sp, Directed: directed}
	js, _ := json.Marshal(cs)
	cmd := exec.Command(exe, "e1bcexworker", string(js))
	cmd.Env = append(os.Environ(), "GOMAXPROCS=1")
	raw, err := cmd.Output()
	var res struct {
		Viols   map[string]string `json:"violations"`
		Outcome string            `json:"outcome"`
		DirErr  string            `json:"directed_error"`
	}
	if e := json.Unmarshal(raw, &res); e != nil || err != nil {
		return "not reproduced", fmt.Sprintf("replay worker failed: %v %v", err, e), cs
	}
	trace := strings.Join(labels, " ")
	if res.DirErr != "" {
		return "not reproduced", "the implementation cannot follow the trace: " + res.DirErr + "; trace " + trace, cs
	}
	for tag, d := range res.Viols {
		for _, o := range c07Oracles {
			if tag == o {
				return "reproduced", tag + ": " + d + "; trace " + trace, cs
			}
		}
	}
	return "not reproduced", "the implementation follows the schedule without violating any protocol oracle (outcome " + res.Outcome + "); trace " + trace, cs
}

func lastLines(s string, n int) string {
	ls := strings.Split(strings.TrimSpace(s), "\n")
	if len(ls) > n {
		ls = ls[len(ls)-n:]
	}
	return strings.Join(ls, "\n")
}
