package main

import (
	"bytes"
	"errors"
	"fmt"
	"io"

	"github.com/flanglet/kanzi-go/v2/bitstream"
	kio "github.com/flanglet/kanzi-go/v2/io"
)

// memSink is a healthy in-memory io.WriteCloser.
type memSink struct {
	bytes.Buffer
	closes int
	calls  []int // sizes of the Write calls the library made
}

func (s *memSink) Write(p []byte) (int, error) {
	s.calls = append(s.calls, len(p))
	return s.Buffer.Write(p)
}
func (s *memSink) Close() error { s.closes++; return nil }

type memSrc struct {
	*bytes.Reader
	closes int
}

func newSrc(b []byte) *memSrc  { return &memSrc{Reader: bytes.NewReader(b)} }
func (s *memSrc) Close() error { s.closes++; return nil }

// Params are the parameters the property statements quantify over.
type Params struct {
	Transform  string `json:"transform"`
	Entropy    string `json:"entropy"`
	Block      uint   `json:"block"`
	Jobs       uint   `json:"jobs"`
	Checksum   uint   `json:"checksum"`
	Hint       int64  `json:"hint"` // -1 = absent
	Headerless bool   `json:"headerless,omitempty"`
	Skip       bool   `json:"skip_blocks,omitempty"` // ctx "skipBlocks": store incompressible / already compressed blocks raw
}

func (p Params) String() string {
	s := fmt.Sprintf("%s/%s/b%d/j%d/c%d/h%d/%v", p.Transform, p.Entropy, p.Block, p.Jobs, p.Checksum, p.Hint, p.Headerless)
	if p.Skip {
		s += "/skip"
	}
	return s
}

func (p Params) ctx() map[string]any {
	ctx := map[string]any{"transform": p.Transform, "entropy": p.Entropy, "blockSize": p.Block, "jobs": p.Jobs, "checksum": p.Checksum, "headerless": p.Headerless}
	if p.Hint >= 0 {
		ctx["fileSize"] = p.Hint
	}
	if p.Skip {
		ctx["skipBlocks"] = true
	}
	return ctx
}

var errConstruct = errors.New("rejected at construction")

// compressParts writes data split at the given part sizes (nil = one Write), then closes.
// Returns the stream, and the first error with the name of the call that returned it.
func compressParts(data []byte, p Params, parts []int) (stream []byte, where string, err error) {
	sk := &memSink{}
	w, err := kio.NewWriterWithCtx(sk, p.ctx())
	if err != nil {
		return nil, "construct", err
	}
	off := 0
	writeOne := func(n int) error {
		k, e := w.Write(data[off : off+n])
		if e != nil {
			return e
		}
		if k != n {
			return fmt.Errorf("short write %d of %d without error", k, n)
		}
		off += n
		return nil
	}
	if parts == nil {
		if e := writeOne(len(data)); e != nil {
			w.Close()
			return sk.Bytes(), "write", e
		}
	} else {
		for _, n := range parts {
			if n > len(data)-off {
				n = len(data) - off
			}
			if e := writeOne(n); e != nil {
				w.Close()
				return sk.Bytes(), "write", e
			}
		}
		if off < len(data) {
			if e := writeOne(len(data) - off); e != nil {
				w.Close()
				return sk.Bytes(), "write", e
			}
		}
	}
	if e := w.Close(); e != nil {
		return sk.Bytes(), "close", e
	}
	return sk.Bytes(), "", nil
}

func compress(data []byte, p Params) ([]byte, string, error) { return compressParts(data, p, nil) }

type readResult struct {
	Out      []byte
	Err      error // first non-nil error other than io.EOF (nil if clean EOF)
	EOF      bool  // io.EOF was returned
	AfterErr int   // bytes returned by Read calls made after the first error
	Calls    int
}

// drain reads r with buffers of size rb until io.EOF, or until `extra` further calls after the
// first error; everything returned is appended to Out (so data served after an error shows up).
func drain(r io.Reader, rb int, extra int) readResult {
	var res readResult
	buf := make([]byte, rb)
	post := -1
	for i := 0; i < 1<<22; i++ {
		n, err := r.Read(buf)
		res.Calls++
		res.Out = append(res.Out, buf[:n]...)
		if post >= 0 {
			res.AfterErr += n
		}
		if err == io.EOF {
			res.EOF = true
			return res
		}
		if err != nil {
			if res.Err == nil {
				res.Err = err
			}
			if post < 0 {
				post = 0
			}
		} else if n == 0 && rb > 0 && post < 0 {
			// (0, nil) is legal for io.Reader but must not repeat forever
			if i > 1<<20 {
				res.Err = errors.New("reader returns (0,nil) forever")
				return res
			}
		}
		if post >= 0 {
			post++
			if post > extra {
				return res
			}
		}
	}
	res.Err = errors.New("reader never ended")
	return res
}

func readerCtx(jobs uint, p *Params) map[string]any {
	ctx := map[string]any{"jobs": jobs}
	if p != nil && p.Headerless {
		ctx["headerless"] = true
		ctx["transform"] = p.Transform
		ctx["entropy"] = p.Entropy
		ctx["blockSize"] = p.Block
		ctx["checksum"] = p.Checksum
		ctx["bsVersion"] = uint(6)
		if p.Hint >= 0 {
			ctx["outputSize"] = p.Hint
		}
	}
	return ctx
}

// decompressSmallBuf is decompress with a 4 KiB input bitstream buffer instead of the default
// 256 KiB (same code path, 60x less memory to zero per decode; used by the mass-mutation checks).
func decompressSmallBuf(stream []byte, jobs uint, p *Params, rb int) readResult {
	ibs, err := bitstream.NewDefaultInputBitStream(newSrc(stream), 4096)
	if err != nil {
		return readResult{Err: err}
	}
	r, err := kio.NewReaderWithCtx2(ibs, readerCtx(jobs, p))
	if err != nil {
		return readResult{Err: fmt.Errorf("reader construction: %w", err)}
	}
	res := drain(r, rb, 3)
	r.Close()
	return res
}

// decompress decodes stream with the given job count (p only matters for headerless streams).
func decompress(stream []byte, jobs uint, p *Params, rb int) readResult {
	r, err := kio.NewReaderWithCtx(newSrc(stream), readerCtx(jobs, p))
	if err != nil {
		return readResult{Err: fmt.Errorf("reader construction: %w", err)}
	}
	res := drain(r, rb, 3)
	r.Close()
	return res
}

func firstDiff(a, b []byte) int {
	n := min(len(a), len(b))
	for i := 0; i < n; i++ {
		if a[i] != b[i] {
			return i
		}
	}
	if len(a) != len(b) {
		return n
	}
	return -1
}

func isPrefix(p, full []byte) bool { return len(p) <= len(full) && bytes.Equal(p, full[:len(p)]) }
