package main

// E5 kzfmt: an independent bit-level reader/writer of the kanzi container (bitstream format 6),
// written from the format description (DESIGN.md section 1), not from the repository code.
// Self-check: re-serialising a parsed stream must reproduce it bit for bit.

import (
	"errors"
	"fmt"
)

type bitReader struct {
	b   []byte
	pos int
}

func (r *bitReader) left() int { return len(r.b)*8 - r.pos }
func (r *bitReader) bits(n int) (uint64, error) {
	if n > r.left() {
		return 0, errors.New("kzfmt: out of data")
	}
	var v uint64
	for i := 0; i < n; i++ {
		v = v<<1 | uint64(r.b[r.pos>>3]>>(7-uint(r.pos&7))&1)
		r.pos++
	}
	return v, nil
}

type bitWriter struct {
	b   []byte
	pos int
}

func (w *bitWriter) bits(v uint64, n int) {
	for i := n - 1; i >= 0; i-- {
		if w.pos>>3 >= len(w.b) {
			w.b = append(w.b, 0)
		}
		if v>>uint(i)&1 != 0 {
			w.b[w.pos>>3] |= 0x80 >> uint(w.pos&7)
		}
		w.pos++
	}
}

func (w *bitWriter) copyBits(src []byte, from, n int) {
	for i := 0; i < n; i++ {
		bit := src[(from+i)>>3] >> (7 - uint((from+i)&7)) & 1
		w.bits(uint64(bit), 1)
	}
}

type kzHeader struct {
	Present   bool
	Version   uint64
	CkSize    uint64 // 0,1,2
	Entropy   uint64
	Transform uint64
	BlockSz16 uint64 // block size >> 4
	SzMask    uint64
	Size      uint64
	Padding   uint64
	Checksum  uint64
	Bits      int
	// bit offsets of fields (for mutations)
	Off map[string][2]int
}

type kzBlock struct {
	StartBit    int // position of the 5-bit length-width field
	LenWidth    int // lw
	PayloadBit  int // first payload bit
	PayloadBits int
	Mode        byte
	SkipFlags   byte
	HasSkip     bool
	PreLenBytes int
	PreLen      uint64
	CkBits      int
	DataBit     int // first bit of entropy-coded data (after mode/len/checksum)
	// Override, when non-nil, replaces the payload in serialize() (forged blocks)
	Override     []byte
	OverrideBits int
	ForceLW      int // when > 0, the length-width field to emit
}

type kzStream struct {
	Raw     []byte
	Hdr     kzHeader
	Blocks  []kzBlock
	EndBit  int // position of the end marker
	TailBit int // first bit after the end marker
}

func kzHeaderChecksum(h *kzHeader) uint64 {
	const HASH = uint32(0x1E35A7BD)
	seed := uint32(0x01030507 * uint32(h.Version))
	ck := HASH * seed
	ck ^= HASH * uint32(^h.CkSize)
	ck ^= HASH * uint32(^h.Entropy)
	ck ^= HASH * uint32((^h.Transform)>>32)
	ck ^= HASH * uint32(^h.Transform)
	ck ^= HASH * uint32(^(h.BlockSz16 << 4))
	if h.SzMask > 0 {
		ck ^= HASH * uint32((^h.Size)>>32)
		ck ^= HASH * uint32(^h.Size)
	}
	ck = (ck >> 23) ^ (ck >> 3)
	return uint64(ck & 0xFFFFFF)
}

func parseKanziOpt(raw []byte, headerless bool, ckBits int) (*kzStream, error) {
	r := &bitReader{b: raw}
	ks := &kzStream{Raw: raw}
	if !headerless {
		h := &ks.Hdr
		h.Present = true
		h.Off = map[string][2]int{}
		f := func(name string, n int) (uint64, error) {
			h.Off[name] = [2]int{r.pos, n}
			return r.bits(n)
		}
		magic, err := f("magic", 32)
		if err != nil {
			return nil, err
		}
		if magic != 0x4B414E5A {
			return nil, fmt.Errorf("kzfmt: bad magic %x", magic)
		}
		if h.Version, err = f("version", 4); err != nil {
			return nil, err
		}
		if h.Version != 6 {
			return nil, fmt.Errorf("kzfmt: only format 6 is described, got %d", h.Version)
		}
		h.CkSize, _ = f("cksize", 2)
		h.Entropy, _ = f("entropy", 5)
		h.Transform, _ = f("transform", 48)
		h.BlockSz16, _ = f("blocksize", 28)
		if h.SzMask, err = f("szmask", 2); err != nil {
			return nil, err
		}
		if h.SzMask > 0 {
			if h.Size, err = f("size", int(16*h.SzMask)); err != nil {
				return nil, err
			}
		}
		h.Padding, _ = f("padding", 15)
		if h.Checksum, err = f("hcheck", 24); err != nil {
			return nil, err
		}
		h.Bits = r.pos
		ckBits = int(h.CkSize) * 32
	}
	for {
		var b kzBlock
		b.StartBit = r.pos
		lw, err := r.bits(5)
		if err != nil {
			return nil, err
		}
		b.LenWidth = int(lw) + 3
		n, err := r.bits(b.LenWidth)
		if err != nil {
			return nil, err
		}
		if n == 0 {
			ks.EndBit = b.StartBit
			ks.TailBit = r.pos
			break
		}
		b.PayloadBit = r.pos
		b.PayloadBits = int(n)
		if int(n) > r.left() {
			return nil, errors.New("kzfmt: block longer than stream")
		}
		pr := &bitReader{b: raw, pos: r.pos}
		m, _ := pr.bits(8)
		b.Mode = byte(m)
		if b.Mode&0x80 == 0 && b.Mode&0x10 != 0 {
			sf, _ := pr.bits(8)
			b.SkipFlags = byte(sf)
			b.HasSkip = true
		}
		b.PreLenBytes = 1 + int(b.Mode>>5&3)
		b.PreLen, _ = pr.bits(8 * b.PreLenBytes)
		b.CkBits = ckBits
		if ckBits > 0 {
			pr.bits(ckBits)
		}
		b.DataBit = pr.pos
		r.pos += int(n)
		ks.Blocks = append(ks.Blocks, b)
	}
	return ks, nil
}

func parseKanzi(raw []byte) (*kzStream, error) { return parseKanziOpt(raw, false, 0) }

// serialize rebuilds the stream from the parsed structure (header fields re-emitted from their
// values, blocks copied bit-wise); used as a self check and as the base of forged streams.
func (ks *kzStream) serialize(fixHeaderChecksum bool) []byte {
	w := &bitWriter{}
	if ks.Hdr.Present {
		h := ks.Hdr
		w.bits(0x4B414E5A, 32)
		w.bits(h.Version, 4)
		w.bits(h.CkSize, 2)
		w.bits(h.Entropy, 5)
		w.bits(h.Transform, 48)
		w.bits(h.BlockSz16, 28)
		w.bits(h.SzMask, 2)
		if h.SzMask > 0 {
			w.bits(h.Size, int(16*h.SzMask))
		}
		w.bits(h.Padding, 15)
		ck := h.Checksum
		if fixHeaderChecksum {
			ck = kzHeaderChecksum(&h)
		}
		w.bits(ck, 24)
	}
	for _, b := range ks.Blocks {
		if b.Override != nil {
			lw := 3
			for lw < 34 && b.OverrideBits>>uint(lw) != 0 {
				lw++
			}
			// same rule as the format: lw = log2(bytes)+4 for >= 8 bits
			if b.OverrideBits >= 8 {
				lw = 0
				for v := b.OverrideBits >> 3; v > 0; v >>= 1 {
					lw++
				}
				lw += 3
			}
			if b.ForceLW > 0 {
				lw = b.ForceLW
			}
			w.bits(uint64(lw-3), 5)
			w.bits(uint64(b.OverrideBits), lw)
			w.copyBits(b.Override, 0, b.OverrideBits)
			continue
		}
		w.bits(uint64(b.LenWidth-3), 5)
		w.bits(uint64(b.PayloadBits), b.LenWidth)
		w.copyBits(ks.Raw, b.PayloadBit, b.PayloadBits)
	}
	w.bits(0, 8)
	return w.b
}

// kzSelfCheck parses a valid stream, checks that it is consumed exactly, that the header checksum
// formula reproduces the stored one and that serialisation is the identity.
func kzSelfCheck(raw []byte) error {
	ks, err := parseKanzi(raw)
	if err != nil {
		return err
	}
	if (ks.TailBit+7)/8 != len(raw) {
		return fmt.Errorf("kzfmt self-check: stream has %d bytes, parser consumed %d bits", len(raw), ks.TailBit)
	}
	if kzHeaderChecksum(&ks.Hdr) != ks.Hdr.Checksum {
		return fmt.Errorf("kzfmt self-check: header checksum formula gives %x, stream has %x", kzHeaderChecksum(&ks.Hdr), ks.Hdr.Checksum)
	}
	re := ks.serialize(true)
	if string(re) != string(raw) {
		return errors.New("kzfmt self-check: re-serialised stream differs")
	}
	return nil
}

// payload returns a copy of block i's payload bits, left aligned in a fresh byte slice.
func (ks *kzStream) payload(i int) ([]byte, int) {
	b := ks.Blocks[i]
	w := &bitWriter{}
	w.copyBits(ks.Raw, b.PayloadBit, b.PayloadBits)
	return w.b, b.PayloadBits
}
