package main

// C17 Stream object lifecycle behaves like the documented state machine.
// E3: breadth-first search over call sequences on the real Writer / Reader against a two-state
// model ({open, closed} + bytes accepted / delivered). Every transition is validated on a fresh
// object (replay of the shortest path + the new call).

import (
	"bytes"
	"fmt"
	"io"

	kio "github.com/flanglet/kanzi-go/v2/io"
)

type lcOp struct {
	K string `json:"k"` // write | close | getwritten | read | getread
	N int    `json:"n,omitempty"`
}

func (o lcOp) String() string { return fmt.Sprintf("%s(%d)", o.K, o.N) }

type lcCase struct {
	Side       string `json:"side"` // writer | reader
	Jobs       uint   `json:"jobs"`
	Headerless bool   `json:"headerless,omitempty"`
	StreamLen  int    `json:"stream_len,omitempty"` // reader: length of the original data
	Path       []lcOp `json:"path"`
}

func (c lcCase) String() string {
	return fmt.Sprintf("%s|%d|%v|%d|%v", c.Side, c.Jobs, c.Headerless, c.StreamLen, c.Path)
}

const lcB = 1024

func lcParams(jobs uint, headerless bool) Params {
	return Params{Transform: "LZ", Entropy: "HUFFMAN", Block: lcB, Jobs: jobs, Checksum: 32, Hint: -1, Headerless: headerless}
}

var lcSource = shape("text", 64*lcB)

func runLcWriter(c lcCase) (*Fail, string) {
	sk := &memSink{}
	p := lcParams(c.Jobs, c.Headerless)
	w, err := kio.NewWriterWithCtx(sk, p.ctx())
	if err != nil {
		return failf("harness", "%v", err), ""
	}
	closed := false
	accepted := 0
	lastGW := uint64(0)
	for i, op := range c.Path {
		sinkBefore := sk.Len()
		switch op.K {
		case "write":
			n, err := w.Write(lcSource[accepted : accepted+op.N])
			if closed {
				if err == nil || n != 0 {
					return failf("write-after-close-accepted", "step %d of %v: Write(%d) on a closed Writer returned (%d, %v)", i, c.Path, op.N, n, err), ""
				}
				if sk.Len() != sinkBefore {
					return failf("write-after-close-changes-sink", "step %d of %v", i, c.Path), ""
				}
			} else {
				if err != nil || n != op.N {
					return failf("write-on-open-stream-failed", "step %d of %v: Write(%d) returned (%d, %v)", i, c.Path, op.N, n, err), ""
				}
				accepted += n
			}
		case "close":
			if err := w.Close(); err != nil {
				return failf("close-returned-error", "step %d of %v: %v", i, c.Path, err), ""
			}
			if closed && sk.Len() != sinkBefore {
				return failf("close-not-idempotent", "step %d of %v: a repeated Close changed the sink", i, c.Path), ""
			}
			closed = true
			if sk.closes != 1 {
				return failf("underlying-close-count", "step %d of %v: the sink was closed %d times", i, c.Path, sk.closes), ""
			}
		case "getwritten":
			// counted below
		}
		gw := w.GetWritten()
		if gw < lastGW {
			return failf("getwritten-not-monotone", "step %d of %v: GetWritten went from %d to %d", i, c.Path, lastGW, gw), ""
		}
		lastGW = gw
		if closed && gw != uint64(sk.Len()) {
			return failf("getwritten!=sink-length", "step %d of %v: after Close GetWritten()=%d, the sink received %d bytes", i, c.Path, gw, sk.Len()), ""
		}
	}
	key := fmt.Sprintf("w|%d|%v|%v|%d", c.Jobs, c.Headerless, closed, accepted)
	// validation close: the sink must decode to exactly the accepted bytes
	if err := w.Close(); err != nil {
		return failf("close-returned-error", "final Close of %v: %v", c.Path, err), key
	}
	if gw := w.GetWritten(); gw != uint64(sk.Len()) {
		return failf("getwritten!=sink-length", "%v: after Close GetWritten()=%d, the sink received %d bytes", c.Path, gw, sk.Len()), key
	}
	res := decompress(sk.Bytes(), 2, &p, 4096)
	if res.Err != nil || !res.EOF || !bytes.Equal(res.Out, lcSource[:accepted]) {
		return failf("closed-stream-does-not-decode-to-accepted-bytes", "%v: accepted %d bytes; decode: err=%v, %d bytes, first difference %d", c.Path, accepted, res.Err, len(res.Out), firstDiff(res.Out, lcSource[:accepted])), key
	}
	return nil, key
}

func runLcReader(c lcCase) (*Fail, string) {
	p := lcParams(2, c.Headerless)
	data := lcSource[:c.StreamLen]
	stream, _, err := compress(data, p)
	if err != nil {
		return failf("harness", "%v", err), ""
	}
	src := newSrc(stream)
	r, err := kio.NewReaderWithCtx(src, readerCtx(c.Jobs, &p))
	if err != nil {
		return failf("harness", "%v", err), ""
	}
	closed, eof := false, false
	delivered := 0
	lastGR := uint64(0)
	for i, op := range c.Path {
		switch op.K {
		case "read":
			buf := make([]byte, op.N)
			n, err := r.Read(buf)
			if closed {
				if err == nil || err == io.EOF || n != 0 {
					return failf("read-after-close-accepted", "step %d of %v: Read(%d) on a closed Reader returned (%d, %v)", i, c.Path, op.N, n, err), ""
				}
				break
			}
			if err != nil && err != io.EOF {
				return failf("read-error-on-valid-stream", "step %d of %v: %v", i, c.Path, err), ""
			}
			if n < 0 || n > op.N || delivered+n > len(data) || !bytes.Equal(buf[:n], data[delivered:delivered+n]) {
				return failf("read-wrong-bytes", "step %d of %v: Read(%d) returned %d bytes that are not the next bytes of the original (delivered %d of %d)", i, c.Path, op.N, n, delivered, len(data)), ""
			}
			delivered += n
			if err == io.EOF {
				if delivered != len(data) {
					return failf("early-eof", "step %d of %v: io.EOF after %d of %d bytes", i, c.Path, delivered, len(data)), ""
				}
				eof = true
			} else if op.N > 0 && n == 0 && delivered < len(data) {
				return failf("read-returns-nothing", "step %d of %v: Read(%d) returned (0, nil) with %d bytes left", i, c.Path, op.N, len(data)-delivered), ""
			} else if op.N > 0 && n < op.N && delivered < len(data) {
				return failf("short-read-before-end", "step %d of %v: Read(%d) returned %d with %d bytes left", i, c.Path, op.N, n, len(data)-delivered), ""
			}
			if eof && n != 0 {
				return failf("data-after-eof", "step %d of %v", i, c.Path), ""
			}
		case "close":
			if err := r.Close(); err != nil {
				return failf("close-returned-error", "step %d of %v: %v", i, c.Path, err), ""
			}
			closed = true
			if src.closes != 1 {
				return failf("underlying-close-count", "step %d of %v: the source was closed %d times", i, c.Path, src.closes), ""
			}
		}
		gr := r.GetRead()
		if gr < lastGR {
			return failf("getread-not-monotone", "step %d of %v: GetRead went from %d to %d", i, c.Path, lastGR, gr), ""
		}
		if gr > uint64(len(stream)) {
			return failf("getread-exceeds-stream", "step %d of %v: GetRead()=%d, the stream has %d bytes", i, c.Path, gr, len(stream)), ""
		}
		lastGR = gr
	}
	key := fmt.Sprintf("r|%d|%d|%v|%d|%v", c.Jobs, c.StreamLen, closed, delivered, eof)
	// validation: drain the rest and compare
	if !closed {
		res := drain(r, 3000, 1)
		if res.Err != nil || !bytes.Equal(res.Out, data[delivered:]) {
			return failf("remaining-bytes-wrong", "%v: after the sequence the rest of the stream is wrong: err=%v, got %d want %d bytes", c.Path, res.Err, len(res.Out), len(data)-delivered), key
		}
		if err := r.Close(); err != nil {
			return failf("close-returned-error", "%v", err), key
		}
	}
	if err := r.Close(); err != nil {
		return failf("close-not-idempotent", "repeated Close: %v", err), key
	}
	return nil, key
}

func safeLc(c lcCase) (fl *Fail, key string) {
	defer func() {
		if r := recover(); r != nil {
			fl = failf("panic@"+panicSite(), "%v: panic escaped: %v", c.Path, r)
		}
	}()
	if c.Side == "writer" {
		return runLcWriter(c)
	}
	return runLcReader(c)
}

var famLc = NewFamily("C17.path", func(c lcCase) (*Fail, bool) {
	f, _ := safeLc(c)
	return f, len(c.Path) > 0
})

type hintCase struct {
	Jobs       uint  `json:"jobs"`
	Headerless bool  `json:"headerless"`
	Hint       int64 `json:"hint"`
	Len        int   `json:"len"`
}

func (h hintCase) String() string { return fmt.Sprintf("%d|%v|%d|%d", h.Jobs, h.Headerless, h.Hint, h.Len) }

var famHint = NewFamily("C17.hint", func(h hintCase) (*Fail, bool) {
	p := lcParams(h.Jobs, h.Headerless)
	p.Hint = h.Hint
	data := lcSource[:h.Len]
	sk := &memSink{}
	w, err := kio.NewWriterWithCtx(sk, p.ctx())
	if err != nil {
		return failf("harness-ctor", "%v", err), false
	}
	if h.Len > 0 {
		if n, err := w.Write(data); err != nil || n != h.Len {
			return failf("write-fails-with-size-hint", "%s: Write(%d) = (%d, %v)", h, h.Len, n, err), true
		}
	}
	if err := w.Close(); err != nil {
		return failf("close-fails-with-size-hint", "%s: %v", h, err), true
	}
	if got := w.GetWritten(); got != uint64(len(sk.Bytes())) {
		return failf("getwritten-mismatch-with-size-hint", "%s: GetWritten %d, sink %d", h, got, len(sk.Bytes())), true
	}
	pp := p
	res := decompress(sk.Bytes(), h.Jobs, &pp, 1000)
	if res.Err != nil || !res.EOF || !bytes.Equal(res.Out, data) {
		return failf("closed-stream-does-not-decode-to-accepted-bytes size-hint", "%s: a Writer given the size hint %d accepted %d bytes and closed: the stream decodes to %d bytes, err=%v", h, h.Hint, h.Len, len(res.Out), res.Err), true
	}
	return nil, h.Hint != int64(h.Len)
})

type retryCase struct {
	T    string `json:"transform"`
	E    string `json:"entropy"`
	Jobs uint   `json:"jobs"`
	Len  int    `json:"len"`
	K    int    `json:"failing_sink_call"`
}

func (r retryCase) String() string { return fmt.Sprintf("%s/%s|%d|%d|%d", r.T, r.E, r.Jobs, r.Len, r.K) }

// A sink whose K-th Write fails once; every call is retried by the caller until it succeeds (at most
// 3 times). After the Close that finally succeeds: GetWritten == bytes at the sink == fault-free stream.
var famRetry = NewFamily("C17.retry", func(r retryCase) (*Fail, bool) {
	data := shape("text", r.Len)
	p := Params{r.T, r.E, lcB, r.Jobs, 32, -1, false, false}
	ref, where, err := compress(data, p)
	if err != nil {
		return failf("harness-compress", "%s: %v", where, err), false
	}
	sk := &faultSink{plan: map[int]string{r.K: "err"}, from: -1}
	w, err := kio.NewWriterWithCtx(sk, p.ctx())
	if err != nil {
		return failf("harness-ctor", "%v", err), false
	}
	if _, err := w.Write(data); err != nil {
		return nil, false // the failure hit a Write: the stream is in error state, C08's business
	}
	var cerr error
	for i := 0; i < 3; i++ {
		if cerr = w.Close(); cerr == nil {
			break
		}
	}
	if cerr != nil || sk.faults == 0 {
		return nil, false
	}
	if !bytes.Equal(sk.buf.Bytes(), ref) {
		return nil, false // incomplete stream after a successful Close: C08's oracle
	}
	if got := w.GetWritten(); got != uint64(sk.buf.Len()) {
		return failf("getwritten-after-retried-close", "%s: the sink rejected write #%d once, the retried Close succeeded and the sink holds the complete stream of %d bytes, but GetWritten() = %d", r, r.K, sk.buf.Len(), got), true
	}
	return nil, true
})

func init() {
	register("C17", "model_checking", func(c *Ctx) {
		c.Rule("explicit-state BFS over call sequences on the real Writer (alphabet Write(0), Write(1), Write(B-1), Write(B), Write(B+1), Write(jobs*B), Close, GetWritten) and Reader (Read(0), Read(1), Read(B), Read(2B+1), Close, GetRead) to depth 6 (quick) / 8 (thorough), jobs 1..3, header and headerless, reader streams of {0,1,B,2.5B,(2*jobs+1)B} bytes, against a model {open,closed} + bytes accepted/delivered. Every transition is validated on a fresh object (replay of the shortest path + the call): return values, counters, sink/source close count, and - after a validating Close - the sink decodes to exactly the accepted bytes (resp. the rest of the stream is delivered intact). States merge on (configuration, closed, bytes accepted/delivered, eof): the implementation's remaining state (buffers, block ids) is a function of the accepted/delivered byte count. states/transitions as counted; each transition is a trace replayed on the implementation")
		depth := pick(c, 6, 8)
		var total int64
		states := map[string]bool{}
		bfs := func(base lcCase, alpha []lcOp) {
			frontier := [][]lcOp{{}}
			for d := 0; d <= depth && len(frontier) > 0; d++ {
				type res struct {
					key string
					fl  *Fail
				}
				out := make([]res, len(frontier))
				idx := make(chan int, len(frontier))
				for i := range frontier {
					idx <- i
				}
				close(idx)
				done := make(chan struct{})
				for w := 0; w < 16; w++ {
					go func() {
						for i := range idx {
							cs := base
							cs.Path = frontier[i]
							fl, key := safeLc(cs)
							out[i] = res{key, fl}
						}
						done <- struct{}{}
					}()
				}
				for w := 0; w < 16; w++ {
					<-done
				}
				var next [][]lcOp
				for i, r := range out {
					cs := base
					cs.Path = frontier[i]
					c.Count("C17|"+cs.String(), len(cs.Path) > 0)
					total++
					if r.fl != nil {
						c.Violate("C17.path", cs, r.fl)
						continue
					}
					if d == depth && len(c.samples) < 6 {
						c.Sample(cs)
					}
					if states[r.key] {
						continue
					}
					states[r.key] = true
					if d == depth {
						continue
					}
					for _, op := range alpha {
						next = append(next, append(append([]lcOp{}, frontier[i]...), op))
					}
				}
				frontier = next
			}
		}
		for _, jobs := range []uint{1, 2, 3} {
			for _, hl := range []bool{false, true} {
				alpha := []lcOp{{"write", 0}, {"write", 1}, {"write", lcB - 1}, {"write", lcB}, {"write", lcB + 1}, {"write", int(jobs) * lcB}, {"close", 0}, {"getwritten", 0}}
				bfs(lcCase{Side: "writer", Jobs: jobs, Headerless: hl}, alpha)
			}
			for _, sl := range []int{0, 1, lcB, 2*lcB + lcB/2, (2*int(jobs) + 1) * lcB} {
				alpha := []lcOp{{"read", 0}, {"read", 1}, {"read", lcB}, {"read", 2*lcB + 1}, {"close", 0}, {"getread", 0}}
				bfs(lcCase{Side: "reader", Jobs: jobs, StreamLen: sl, Headerless: sl == lcB}, alpha)
			}
		}
		c.AddStates(int64(len(states)), total, total)
		c.Extra("bfs_depth", depth)
		// the advisory size hint does not change the state machine: a Writer given a hint and closed without
		// any Write (or after another number of bytes) still yields a stream that decodes to what it accepted
		famHint.Each(c, 0, func(emit func(hintCase)) {
			for _, jobs := range []uint{1, 2, 3} {
				for _, hl := range []bool{false, true} {
					for _, hint := range []int64{1, 1000, lcB, 10 * lcB} {
						for _, n := range []int{0, 1, lcB, 2*lcB + 5} {
							emit(hintCase{Jobs: jobs, Headerless: hl, Hint: hint, Len: n})
						}
					}
				}
			}
		})
		// "after a successful Close GetWritten equals the number of bytes the sink received" also when
		// the successful Close is a retry: the sink rejects its k-th write once, Close is called again
		famRetry.Each(c, 0, func(emit func(retryCase)) {
			for _, cd := range [][2]string{{"NONE", "NONE"}, {"NONE", "HUFFMAN"}, {"LZ", "ANS0"}} {
				for _, jobs := range []uint{1, 2} {
					for n := 0; n <= 300; n++ {
						emit(retryCase{T: cd[0], E: cd[1], Jobs: jobs, Len: n, K: 0})
					}
					for _, n := range []int{lcB - 1, lcB, lcB + 1, 2*lcB + 77, 300000, 300001, 300007} {
						for k := 0; k < 3; k++ {
							emit(retryCase{T: cd[0], E: cd[1], Jobs: jobs, Len: n, K: k})
						}
					}
				}
			}
		})
	})
}
