// kzmc: bounded exhaustive checks ("model checking" family) for kanzi-go.
// This package is mapped into the repository module as .../v2/zverif by `go build -overlay`
// (see /verif/bin/build); nothing is written to /repo.
package main

import (
	"encoding/json"
	"fmt"
	"hash/fnv"
	"os"
	"path/filepath"
	"runtime"
	"runtime/debug"
	"sort"
	"strconv"
	"strings"
	"sync"
	"sync/atomic"
	"time"
)

var verifRoot = envOr("VERIF_ROOT", "/verif")
var repoRoot = envOr("REPO_ROOT", "/repo")

func envOr(k, d string) string {
	if v := os.Getenv(k); v != "" {
		return v
	}
	return d
}

// Fail describes one violating case. FP (fingerprint) names the failing condition as narrowly as
// the defect allows; it is the key matched against KNOWN_FINDINGS.txt.
type Fail struct {
	FP     string `json:"fingerprint"`
	Detail string `json:"detail"`
}

func failf(fp, format string, a ...any) *Fail { return &Fail{FP: fp, Detail: fmt.Sprintf(format, a...)} }

type violation struct {
	Fail
	Family string
	Case   any
	Count  int
}

// Ctx collects what one check run covered.
type Ctx struct {
	ID    string
	Tier  string
	Seed  int64
	Level string
	start time.Time

	mu          sync.Mutex
	evals       int64
	nontrivial  int64
	distinct    [64]map[uint64]struct{}
	dmu         [64]sync.Mutex
	samples     []any
	states      int64
	transitions int64
	traces      int64
	rules       []string
	exhaustive  bool
	capped      []string
	extra       map[string]any
	assumptions []string
	viol        map[string]*violation
	violOrder   []string
	harnessErr  []string
	deadline    time.Time
}

func newCtx(id, tier, level string) *Ctx {
	c := &Ctx{ID: id, Tier: tier, Level: level, start: time.Now(), extra: map[string]any{}, viol: map[string]*violation{}, exhaustive: true}
	if s := os.Getenv("VERIF_SEED"); s != "" {
		c.Seed, _ = strconv.ParseInt(s, 10, 64)
	}
	for i := range c.distinct {
		c.distinct[i] = map[uint64]struct{}{}
	}
	return c
}

func (c *Ctx) Thorough() bool { return c.Tier == "thorough" }

// pick returns q in quick tier and t in thorough tier.
func pick[T any](c *Ctx, q, t T) T {
	if c.Thorough() {
		return t
	}
	return q
}

func (c *Ctx) Rule(s string) { c.mu.Lock(); c.rules = append(c.rules, s); c.mu.Unlock() }
func (c *Ctx) Assume(s string) {
	c.mu.Lock()
	c.assumptions = append(c.assumptions, s)
	c.mu.Unlock()
}
func (c *Ctx) Extra(k string, v any) { c.mu.Lock(); c.extra[k] = v; c.mu.Unlock() }
func (c *Ctx) AddExtra(k string, n int64) {
	c.mu.Lock()
	old, _ := c.extra[k].(int64)
	c.extra[k] = old + n
	c.mu.Unlock()
}

// Capped records that some part of the stated space was NOT completed (deadline, horizon...).
func (c *Ctx) Capped(what string) {
	c.mu.Lock()
	c.exhaustive = false
	if len(c.capped) < 50 {
		c.capped = append(c.capped, what)
	}
	c.mu.Unlock()
}

func (c *Ctx) HarnessError(s string) {
	c.mu.Lock()
	c.harnessErr = append(c.harnessErr, s)
	c.mu.Unlock()
}

func (c *Ctx) Sample(v any) {
	c.mu.Lock()
	if len(c.samples) < 12 {
		c.samples = append(c.samples, v)
	}
	c.mu.Unlock()
}

func hash64(s string) uint64 {
	h := fnv.New64a()
	h.Write([]byte(s))
	return h.Sum64()
}

// Count records one evaluated case. key identifies the case (distinctness); nontrivial says
// whether the case exercised the behaviour the property is about (per the family's rule).
func (c *Ctx) Count(key string, nontrivial bool) {
	atomic.AddInt64(&c.evals, 1)
	if !nontrivial {
		return
	}
	h := hash64(key)
	i := h & 63
	c.dmu[i].Lock()
	if _, ok := c.distinct[i][h]; !ok {
		c.distinct[i][h] = struct{}{}
		atomic.AddInt64(&c.nontrivial, 1)
	}
	c.dmu[i].Unlock()
}

func (c *Ctx) AddStates(states, transitions, traces int64) {
	atomic.AddInt64(&c.states, states)
	atomic.AddInt64(&c.transitions, transitions)
	atomic.AddInt64(&c.traces, traces)
}

func (c *Ctx) Violate(family string, cs any, f *Fail) {
	c.mu.Lock()
	defer c.mu.Unlock()
	v, ok := c.viol[f.FP]
	if !ok {
		v = &violation{Fail: *f, Family: family, Case: cs}
		c.viol[f.FP] = v
		c.violOrder = append(c.violOrder, f.FP)
	}
	v.Count++
}

// ---- families: typed case enumerations with replay ----

type familyRec struct {
	name   string
	replay func(raw json.RawMessage) (*Fail, error)
}

var families = map[string]*familyRec{}

type Family[T any] struct {
	Name string
	Run  func(T) (fail *Fail, nontrivial bool)
	// Timeout after which a case that has not returned is reported as a hang (0 = 45 min).
	Timeout time.Duration
}

func NewFamily[T any](name string, run func(T) (*Fail, bool)) *Family[T] {
	f := &Family[T]{Name: name, Run: run}
	families[name] = &familyRec{name: name, replay: func(raw json.RawMessage) (*Fail, error) {
		var cs T
		if err := json.Unmarshal(raw, &cs); err != nil {
			return nil, err
		}
		fl, _ := f.safeRun(cs)
		return fl, nil
	}}
	return f
}

func panicSite() string {
	// first frame inside the repository (not runtime, not harness)
	st := string(debug.Stack())
	lines := strings.Split(st, "\n")
	for i := 0; i+1 < len(lines); i++ {
		l := lines[i]
		if strings.HasPrefix(l, "github.com/flanglet/kanzi-go/v2/") && !strings.Contains(l, "/zverif") {
			fn := l
			if k := strings.LastIndex(fn, "("); k > 0 {
				fn = fn[:k]
			}
			fn = strings.TrimPrefix(fn, "github.com/flanglet/kanzi-go/v2/")
			return fn
		}
	}
	return "unknown"
}

func (f *Family[T]) safeRun(cs T) (fl *Fail, nt bool) {
	defer func() {
		if r := recover(); r != nil {
			fl = failf("panic@"+panicSite(), "panic escaped: %v", r)
			nt = true
		}
	}()
	return f.Run(cs)
}

// Each enumerates gen completely over `workers` goroutines.
func (f *Family[T]) Each(c *Ctx, workers int, gen func(emit func(T))) {
	if workers <= 0 {
		workers = runtime.NumCPU()
	}
	to := f.Timeout
	if to == 0 {
		to = 45 * time.Minute
	}
	if !c.Thorough() && to > 10*time.Minute {
		// quick tier: no single case of any family needs more than seconds; ten minutes of silence
		// is a case that does not return (reported as such), not a slow machine
		to = 10 * time.Minute
	}
	ch := make(chan T, 4*workers)
	var wg sync.WaitGroup
	type slot struct {
		mu    sync.Mutex
		since time.Time
		cs    any
		busy  bool
	}
	slots := make([]*slot, workers)
	for w := 0; w < workers; w++ {
		sl := &slot{}
		slots[w] = sl
		wg.Add(1)
		go func() {
			defer wg.Done()
			for cs := range ch {
				sl.mu.Lock()
				sl.since, sl.cs, sl.busy = time.Now(), cs, true
				sl.mu.Unlock()
				fl, nt := f.safeRun(cs)
				sl.mu.Lock()
				sl.busy = false
				sl.mu.Unlock()
				key := f.Name + "|" + caseKey(cs)
				c.Count(key, nt)
				if fl != nil {
					c.Violate(f.Name, cs, fl)
				}
			}
		}()
	}
	stopWatch := make(chan struct{})
	go func() {
		t := time.NewTicker(5 * time.Second)
		defer t.Stop()
		for {
			select {
			case <-stopWatch:
				return
			case <-t.C:
				for _, sl := range slots {
					sl.mu.Lock()
					if sl.busy && time.Since(sl.since) > to {
						cs := sl.cs
						sl.mu.Unlock()
						c.Violate(f.Name, cs, failf("hang", "case did not return within %v", to))
						c.Capped("aborted after hang in family " + f.Name)
						c.Finish() // exits
					}
					sl.mu.Unlock()
				}
			}
		}
	}()
	n := 0
	gen(func(cs T) {
		if n < 3 || (c.Seed != 0 && int64(n)%997 == c.Seed%997 && n < 100000) {
			c.Sample(map[string]any{"family": f.Name, "case": cs})
		}
		n++
		ch <- cs
	})
	close(ch)
	wg.Wait()
	close(stopWatch)
}

func caseKey(cs any) string {
	if s, ok := cs.(fmt.Stringer); ok {
		return s.String()
	}
	return fmt.Sprintf("%+v", cs)
}

// ---- known findings ----

type knownEntry struct {
	prop, fp, desc string
}

func loadKnown() []knownEntry {
	var out []knownEntry
	data, err := os.ReadFile(filepath.Join(verifRoot, "KNOWN_FINDINGS.txt"))
	if err != nil {
		return nil
	}
	for _, line := range strings.Split(string(data), "\n") {
		line = strings.TrimSpace(line)
		// known: property=C12 fp=<fingerprint> :: description
		if !strings.HasPrefix(line, "known:") {
			continue // comments and "fixed:" lines suppress nothing
		}
		rest := strings.TrimSpace(strings.TrimPrefix(line, "known:"))
		desc := ""
		if i := strings.Index(rest, " :: "); i >= 0 {
			desc = rest[i+4:]
			rest = rest[:i]
		}
		var e knownEntry
		e.desc = desc
		if i := strings.Index(rest, " fp="); i >= 0 {
			e.fp = strings.TrimSpace(rest[i+4:])
			rest = rest[:i]
		}
		e.prop = strings.TrimPrefix(strings.TrimSpace(rest), "property=")
		if e.prop != "" && e.fp != "" {
			out = append(out, e)
		}
	}
	return out
}

// ---- finishing: evidence, replay files, exit code ----

var finishOnce sync.Once

func (c *Ctx) Finish() {
	finishOnce.Do(func() { c.finish() })
	select {} // another goroutine is finishing and will exit the process
}

func (c *Ctx) finish() {
	known := loadKnown()
	c.mu.Lock()
	wall := time.Since(c.start).Seconds()
	unlisted := 0
	var lines []string
	violSummary := []map[string]any{}
	for _, fp := range c.violOrder {
		v := c.viol[fp]
		isKnown := false
		for _, k := range known {
			if k.prop == c.ID && k.fp == fp {
				isKnown = true
				lines = append(lines, fmt.Sprintf("KNOWN-FINDING: property=%s %s (%s; %d cases) %s", c.ID, fp, v.Family, v.Count, k.desc))
			}
		}
		violSummary = append(violSummary, map[string]any{"fingerprint": fp, "family": v.Family, "cases": v.Count, "known": isKnown, "detail": trunc(v.Detail, 600)})
		if isKnown {
			continue
		}
		unlisted++
		rp := filepath.Join(verifRoot, "replays", fmt.Sprintf("%s-%016x.json", c.ID, hash64(fp)))
		os.MkdirAll(filepath.Dir(rp), 0o755)
		data, _ := json.MarshalIndent(map[string]any{"property": c.ID, "family": v.Family, "fingerprint": fp, "detail": v.Detail, "cases_with_this_fingerprint": v.Count, "case": v.Case,
			"how_to_replay": fmt.Sprintf("/verif/bin/check %s quick --replay %s", c.ID, rp)}, "", " ")
		os.WriteFile(rp, data, 0o644)
		lines = append(lines, fmt.Sprintf("VIOLATION property=%s replay=%s", c.ID, rp))
		lines = append(lines, fmt.Sprintf("  fingerprint: %s  (%d cases)  %s", fp, v.Count, trunc(v.Detail, 400)))
	}
	cov := map[string]any{
		"evaluations":         c.evals,
		"distinct_nontrivial": c.nontrivial,
		"rule":                strings.Join(c.rules, " || "),
		"samples":             c.samples,
		"exhaustive":          c.exhaustive && len(c.harnessErr) == 0,
	}
	if c.states > 0 {
		cov["states"] = c.states
		cov["transitions"] = c.transitions
		cov["traces_validated_against_impl"] = c.traces
	}
	if len(c.capped) > 0 {
		cov["not_completed"] = c.capped
	}
	if c.Level == "other" {
		if _, ok := c.extra["explanation"]; !ok {
			cov["explanation"] = strings.Join(c.rules, " || ")
		}
	}
	for k, v := range c.extra {
		cov[k] = v
	}
	cov["findings"] = violSummary
	if len(c.samples) == 0 {
		cov["samples"] = []any{"(no case was run)"}
	}
	ev := map[string]any{
		"property_id": c.ID,
		"tier":        c.Tier,
		"seed":        c.Seed,
		"level":       c.Level,
		"coverage":    cov,
		"assumptions": append([]string{}, c.assumptions...),
		"wall_s":      wall,
		"violations":  unlisted,
	}
	if len(c.harnessErr) > 0 {
		ev["harness_errors"] = c.harnessErr
	}
	herr := len(c.harnessErr)
	c.mu.Unlock()
	data, _ := json.MarshalIndent(ev, "", " ")
	os.MkdirAll(filepath.Join(verifRoot, "evidence"), 0o755)
	if os.Getenv("KZMC_NO_EVIDENCE") == "" {
		os.WriteFile(filepath.Join(verifRoot, "evidence", c.ID+".json"), data, 0o644)
	}
	sort.Strings(lines[:0])
	for _, l := range lines {
		fmt.Println(l)
	}
	fmt.Printf("%s %s: evaluations=%d distinct_nontrivial=%d states=%d transitions=%d exhaustive=%v wall=%.1fs violations=%d\n",
		c.ID, c.Tier, c.evals, c.nontrivial, c.states, c.transitions, cov["exhaustive"], wall, unlisted)
	if unlisted > 0 {
		os.Exit(1)
	}
	if herr > 0 {
		for _, h := range c.harnessErr {
			fmt.Println("HARNESS-ERROR:", h)
		}
		os.Exit(2)
	}
	os.Exit(0)
}

func trunc(s string, n int) string {
	if len(s) > n {
		return s[:n] + "…"
	}
	return s
}

// ---- registry and main ----

type checkDef struct {
	id    string
	level string
	run   func(c *Ctx)
}

var checks = map[string]*checkDef{}

func register(id, level string, run func(c *Ctx)) { checks[id] = &checkDef{id, level, run} }

var workerCmds = map[string]func(args []string){}

func main() {
	if len(os.Args) < 2 {
		fmt.Println("usage: kzmc check <id> <quick|thorough> [--replay file] | kzmc list | kzmc <worker> ...")
		os.Exit(2)
	}
	if w, ok := workerCmds[os.Args[1]]; ok {
		w(os.Args[2:])
		return
	}
	switch os.Args[1] {
	case "list":
		var ids []string
		for id := range checks {
			ids = append(ids, id)
		}
		sort.Strings(ids)
		fmt.Println(strings.Join(ids, " "))
	case "check":
		id := os.Args[2]
		tier := "quick"
		if len(os.Args) > 3 {
			tier = os.Args[3]
		}
		if tier != "quick" && tier != "thorough" {
			fmt.Println("tier must be quick or thorough")
			os.Exit(2)
		}
		def, ok := checks[id]
		if !ok {
			fmt.Println("unknown check", id)
			os.Exit(2)
		}
		for i := 4; i+1 < len(os.Args); i++ {
			if os.Args[i] == "--replay" {
				os.Exit(replayFile(os.Args[i+1]))
			}
		}
		c := newCtx(id, tier, def.level)
		def.run(c)
		c.finish()
	default:
		fmt.Println("unknown command", os.Args[1])
		os.Exit(2)
	}
}

func replayFile(path string) int {
	data, err := os.ReadFile(path)
	if err != nil {
		fmt.Println("cannot read replay:", err)
		return 2
	}
	var r struct {
		Property    string          `json:"property"`
		Family      string          `json:"family"`
		Fingerprint string          `json:"fingerprint"`
		Case        json.RawMessage `json:"case"`
	}
	if err := json.Unmarshal(data, &r); err != nil {
		fmt.Println("bad replay file:", err)
		return 2
	}
	fam, ok := families[r.Family]
	if !ok {
		fmt.Println("unknown family", r.Family)
		return 2
	}
	os.Setenv("KZMC_NO_EVIDENCE", "1")
	fl, err := fam.replay(r.Case)
	if err != nil {
		fmt.Println("bad case:", err)
		return 2
	}
	if fl == nil {
		fmt.Printf("replay of %s [%s]: case passes now\n", r.Property, r.Fingerprint)
		return 0
	}
	fmt.Printf("VIOLATION property=%s replay=%s\n  fingerprint: %s\n  %s\n", r.Property, path, fl.FP, fl.Detail)
	return 1
}

func sortStrings(s []string) { sort.Strings(s) }
