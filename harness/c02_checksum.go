package main

// C02 Checksummed streams never yield wrong bytes. For every seed stream, every member of five
// mutation classes confined to block payloads is decoded and everything the reader returns (until
// EOF or 4 calls after the first error) is compared with the original.

import (
	"bytes"
	"fmt"
	"time"
)

type ckCase struct {
	P     Params `json:"params"`
	Shape string `json:"shape"`
	Len   int    `json:"len"`
	Jobs  uint   `json:"dec_jobs"`
	Block int    `json:"block"` // 0-based
	Class string `json:"class"` // bitflip | bytesub | swap | pair16 | splice
	// for replay of a single mutation (otherwise the whole class is enumerated)
	Only []int `json:"only,omitempty"`
}

func (k ckCase) String() string {
	return fmt.Sprintf("%s|%s|%d|%d|%d|%s|%v", k.P, k.Shape, k.Len, k.Jobs, k.Block, k.Class, k.Only)
}

var c02ctx *Ctx

func runCk(k ckCase) (*Fail, bool) {
	data := shape(k.Shape, k.Len)
	stream, where, err := compress(data, k.P)
	if err != nil {
		return failf("harness-compress", "%s %v", where, err), false
	}
	ks, err := parseKanzi(stream)
	if err != nil {
		return failf("harness-kzfmt", "%v", err), false
	}
	if err := kzSelfCheck(stream); err != nil {
		return failf("harness-kzfmt-selfcheck", "%v", err), false
	}
	if k.Block >= len(ks.Blocks) {
		return nil, false
	}
	b := ks.Blocks[k.Block]
	cls := fmt.Sprintf("codec=%s/%s ck=%d mut=%s jobs=%s", k.P.Transform, k.P.Entropy, k.P.Checksum, k.Class, jobsClass(k.Jobs))
	var fail *Fail
	n := 0
	judge := func(mut []byte, desc func() string) bool {
		n++
		if c02ctx != nil {
			c02ctx.Count(fmt.Sprintf("%s|%d", k, n), true)
		}
		var res readResult
		if k.Jobs == 1 {
			res = decompress(mut, k.Jobs, nil, 1000)
		} else {
			res = decompressSmallBuf(mut, k.Jobs, nil, 1000)
		}
		if !isPrefix(res.Out, data) {
			sym := "wrong-bytes-then-error"
			if res.Err == nil {
				sym = "wrong-bytes-no-error"
			}
			fail = failf(sym+" "+cls, "%s, mutation %s: reader returned %d bytes that are not a prefix of the original (first difference at %d), %d of them after the first error; err=%v", k, desc(), len(res.Out), firstDiff(res.Out, data[:min(len(res.Out), len(data))]), res.AfterErr, res.Err)
			return false
		}
		if res.Err == nil && !bytes.Equal(res.Out, data) {
			fail = failf("short-output-no-error "+cls, "%s, mutation %s: clean end after %d of %d bytes", k, desc(), len(res.Out), len(data))
			return false
		}
		return true
	}
	work := make([]byte, len(stream))
	reset := func() { copy(work, stream) }
	switch k.Class {
	case "bitflip":
		for i := 0; i < b.PayloadBits; i++ {
			if k.Only != nil && k.Only[0] != i {
				continue
			}
			reset()
			flipBit(work, b.PayloadBit+i)
			if !judge(work, func() string { return fmt.Sprintf("flip payload bit %d of block %d (only=[%d])", i, k.Block+1, i) }) {
				return fail, true
			}
		}
	case "bytesub":
		for i := 0; i+8 <= b.PayloadBits; i += 8 {
			old := getBits(stream, b.PayloadBit+i, 8)
			for vi, v := range []uint64{0x00, 0xFF, (old + 1) & 0xFF, old ^ 0x80} {
				if v == old || (k.Only != nil && (k.Only[0] != i || k.Only[1] != vi)) {
					continue
				}
				reset()
				putBits(work, b.PayloadBit+i, 8, v)
				if !judge(work, func() string { return fmt.Sprintf("payload byte at bit %d of block %d: %#x -> %#x (only=[%d,%d])", i, k.Block+1, old, v, i, vi) }) {
					return fail, true
				}
			}
		}
	case "swap":
		for i := 0; i+16 <= b.PayloadBits; i += 8 {
			a, c := getBits(stream, b.PayloadBit+i, 8), getBits(stream, b.PayloadBit+i+8, 8)
			if a == c || (k.Only != nil && k.Only[0] != i) {
				continue
			}
			reset()
			putBits(work, b.PayloadBit+i, 8, c)
			putBits(work, b.PayloadBit+i+8, 8, a)
			if !judge(work, func() string { return fmt.Sprintf("swap payload bytes at bit %d of block %d (only=[%d])", i, k.Block+1, i) }) {
				return fail, true
			}
		}
	case "pair16":
		// every pair of flips within each 16-bit window of the first 128 payload bits (mode, length, checksum fields)
		lim := min(b.PayloadBits, 128)
		for i := 0; i < lim; i++ {
			for j := i + 1; j < min(i+16, lim); j++ {
				if k.Only != nil && (k.Only[0] != i || k.Only[1] != j) {
					continue
				}
				reset()
				flipBit(work, b.PayloadBit+i)
				flipBit(work, b.PayloadBit+j)
				if !judge(work, func() string { return fmt.Sprintf("flip payload bits %d and %d of block %d (only=[%d,%d])", i, j, k.Block+1, i, j) }) {
					return fail, true
				}
			}
		}
	case "splice":
		// block i keeps its stored checksum but gets the entropy-coded data (and mode/length
		// fields) of block j: the decoded content differs from what was hashed.
		for j := range ks.Blocks {
			if j == k.Block || (k.Only != nil && k.Only[0] != j) {
				continue
			}
			pj, nbits := ks.payload(j)
			bj := ks.Blocks[j]
			ckOff := bj.DataBit - bj.PayloadBit - bj.CkBits
			ckVal := getBits(stream, b.DataBit-b.CkBits, b.CkBits)
			if getBits(pj, ckOff, bj.CkBits) == ckVal {
				continue // same content, nothing differs
			}
			putBits(pj, ckOff, bj.CkBits, ckVal)
			forged := &kzStream{Raw: ks.Raw, Hdr: ks.Hdr, Blocks: append([]kzBlock{}, ks.Blocks...)}
			forged.Blocks[k.Block].Override, forged.Blocks[k.Block].OverrideBits = pj, nbits
			mut := forged.serialize(true)
			if !judge(mut, func() string { return fmt.Sprintf("block %d carries the data of block %d with its own checksum (only=[%d])", k.Block+1, j+1, j) }) {
				return fail, true
			}
		}
	}
	return nil, n > 0
}

func getBits(b []byte, off, n int) uint64 {
	var v uint64
	for i := 0; i < n; i++ {
		v = v<<1 | uint64(b[(off+i)>>3]>>(7-uint((off+i)&7))&1)
	}
	return v
}

func putBits(b []byte, off, n int, v uint64) {
	for i := 0; i < n; i++ {
		setBit(b, off+i, int(v>>uint(n-1-i)&1))
	}
}

var famCk = NewFamily("C02.mutation", runCk)

func init() {
	register("C02", "fault_enumeration", func(c *Ctx) {
		c02ctx = c
		c.Rule("seed streams {NONE/NONE, LZ/HUFFMAN, BWT+RANK+ZRLT/ANS0, TEXT/TPAQ} x checksum {32,64} x 3-5 blocks x reader jobs {1,2,3}; for every block: EVERY single-bit flip of every payload bit; every payload byte replaced by each of {0x00,0xFF,x+1,x^0x80}; every swap of adjacent payload bytes; every pair of flips within a 16-bit window over the first 128 payload bits; every splice (block i decoded from block j's data under block i's stored checksum = 'damaged inside the pipeline'). Oracle on everything Read returns until EOF or 4 calls after the first error: it is a prefix of the original, and without an error it is the whole original. One evaluation = one mutated stream decoded; positions come from the independent container parser (self-checked on each seed)")
		c.Assume("a mutation that happens to produce a different block with the same 32/64-bit checksum would be a true violation of the statement (probability 2^-32 per case)")
		famCk.Timeout = 90 * time.Minute // one case = every mutation of one class in one block (up to ~2*10^4 decodes)
		famCk.Each(c, 0, func(emit func(ckCase)) {
			type seed struct {
				t, e, shape string
				blk        uint
				n          int
			}
			seeds := []seed{
				{"NONE", "NONE", "text", 1024, 2*1024 + 200},
				{"LZ", "HUFFMAN", "text", 1024, 3*1024 + 500},
				{"BWT+RANK+ZRLT", "ANS0", "text", 1024, 2*1024 + 700},
				{"TEXT", "TPAQ", "text", 1024, 1024 + 100},
				{"NONE", "NONE", "random", 1024, 1024 + 40},
				{"LZ", "HUFFMAN", "text", 1024, 2*1024 + 11}, // last block <= 15 bytes: stored in copy mode
			}
			if c.Thorough() {
				seeds = append(seeds, seed{"LZX", "FPAQ", "xml", 2048, 4*2048 + 100}, seed{"TEXT+UTF+BWT+SRT+ZRLT", "CM", "utf8-3", 2048, 2*2048 + 9}, seed{"RLT+LZP", "RANGE", "runs", 1024, 4*1024 + 100}, seed{"LZX", "ANS1", "dna", 1024, 2*1024 + 50})
			}
			for _, sd := range seeds {
				for _, ck := range []uint{32, 64} {
					for _, j := range []uint{1, 2, 3} {
						if !c.Thorough() && ((ck == 64 && j == 2) || (sd.e == "TPAQ" && j != 1)) {
							continue
						}
						nb := (sd.n + int(sd.blk) - 1) / int(sd.blk)
						for blk := 0; blk < nb; blk++ {
							for _, class := range []string{"bitflip", "bytesub", "swap", "pair16", "splice"} {
								emit(ckCase{P: Params{sd.t, sd.e, sd.blk, 2, ck, -1, false, false}, Shape: sd.shape, Len: sd.n, Jobs: j, Block: blk, Class: class})
							}
						}
					}
				}
			}
		})
	})
}
