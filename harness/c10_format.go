package main

// C10 Streams written by the reference encoder keep decoding (format stability).
// E6: the pinned commit's library (vendored under harness/ref with rewritten import paths) is
// linked into the same binary. Every configuration of the catalogue is encoded by the REFERENCE
// writer; wherever the reference reader restores the input, the CURRENT reader must return the
// same bytes with the same end status. Plus an archived corpus with recorded SHA-256.

import (
	"bytes"
	"crypto/sha256"
	"encoding/hex"
	"encoding/json"
	"fmt"
	"os"
	"os/exec"
	"path/filepath"
	"sort"
	"strings"

	rio "github.com/flanglet/kanzi-go/v2/zverif/ref/io"
)

const refCommit = "76efab5"

func refCompress(data []byte, p Params) (stream []byte, err error) {
	defer func() {
		if r := recover(); r != nil {
			err = fmt.Errorf("reference writer panicked: %v", r)
		}
	}()
	sk := &memSink{}
	w, err := rio.NewWriterWithCtx(sk, p.ctx())
	if err != nil {
		return nil, err
	}
	if _, err := w.Write(data); err != nil {
		w.Close()
		return nil, err
	}
	if err := w.Close(); err != nil {
		return nil, err
	}
	return sk.Bytes(), nil
}

func refDecompress(stream []byte, jobs uint, p *Params) (res readResult) {
	defer func() {
		if r := recover(); r != nil {
			res.Err = fmt.Errorf("reference reader panicked: %v", r)
		}
	}()
	r, err := rio.NewReaderWithCtx(newSrc(stream), readerCtx(jobs, p))
	if err != nil {
		return readResult{Err: err}
	}
	res = drain(r, 4096+7, 0)
	r.Close()
	return res
}

type fmtCase struct {
	P     Params `json:"params"`
	Shape string `json:"shape"`
	Len   int    `json:"len"`
	Jobs  uint   `json:"dec_jobs"`
}

func (f fmtCase) String() string { return fmt.Sprintf("%s|%s|%d|%d", f.P, f.Shape, f.Len, f.Jobs) }

var famFmt = NewFamily("C10.refstream", func(f fmtCase) (*Fail, bool) {
	data := shape(f.Shape, f.Len)
	stream, err := refCompress(data, f.P)
	if err != nil {
		return nil, false // the reference itself cannot write this: nothing to preserve
	}
	pp := f.P
	want := refDecompress(stream, 1, &pp)
	if want.Err != nil || !bytes.Equal(want.Out, data) {
		return nil, false // the reference does not round-trip this one: outside the property
	}
	got := decompress(stream, f.Jobs, &pp, 4096+7)
	cls := fmt.Sprintf("transform=%s entropy=%s", f.P.Transform, f.P.Entropy)
	if got.Err != nil {
		return failf("reference-stream-no-longer-decodes "+cls, "%s: the current reader fails on a stream written by the reference (%d bytes): %v after %d bytes", f, len(stream), got.Err, len(got.Out)), true
	}
	if !bytes.Equal(got.Out, want.Out) {
		return failf("reference-stream-decodes-differently "+cls, "%s: current reader returns %d bytes, reference reader %d; first difference at %d", f, len(got.Out), len(want.Out), firstDiff(got.Out, want.Out)), true
	}
	if got.EOF != want.EOF {
		return failf("reference-stream-end-status "+cls, "%s: EOF current=%v reference=%v", f, got.EOF, want.EOF), true
	}
	return nil, f.Len > 0
})

// ---- golden corpus ----

type goldenEntry struct {
	File       string `json:"file"`
	Params     Params `json:"params"`
	Shape      string `json:"shape"`
	Len        int    `json:"len"`
	SHA256     string `json:"sha256_of_original"`
	StreamSHA  string `json:"sha256_of_stream"`
	Headerless bool   `json:"headerless,omitempty"`
}

func goldenDir() string { return filepath.Join(verifRoot, "golden") }

func goldenConfigs() []fmtCase {
	var out []fmtCase
	for _, t := range allTransforms {
		sh := "text"
		switch t {
		case "DNA", "PACK":
			sh = "dna"
		case "EXE":
			sh = "elf"
		case "MM":
			sh = "wav16s"
		case "UTF":
			sh = "utf8-3"
		}
		out = append(out, fmtCase{P: Params{t, "HUFFMAN", 4096, 2, 32, -1, false, false}, Shape: sh, Len: 9000})
	}
	for _, e := range allEntropies {
		out = append(out, fmtCase{P: Params{"NONE", e, 4096, 2, 64, 9000, false, false}, Shape: "text", Len: 9000})
	}
	for _, ck := range []uint{0, 32, 64} {
		out = append(out, fmtCase{P: Params{"LZ", "ANS0", 1024, 3, ck, -1, ck == 32, false}, Shape: "xml", Len: 5000})
	}
	for _, ps := range levelPresets {
		t, e := splitPreset(ps)
		out = append(out, fmtCase{P: Params{t, e, 65536, 2, 32, -1, false, false}, Shape: "text", Len: 100000})
	}
	out = append(out, fmtCase{P: Params{"NONE", "NONE", 1024, 1, 0, -1, false, false}, Shape: "text", Len: 0})
	return out
}

func init() {
	workerCmds["golden-gen"] = func(args []string) {
		os.MkdirAll(goldenDir(), 0o755)
		var idx []goldenEntry
		for i, f := range goldenConfigs() {
			data := shape(f.Shape, f.Len)
			stream, err := refCompress(data, f.P)
			if err != nil {
				fmt.Println("skip (reference cannot write):", f, err)
				continue
			}
			pp := f.P
			if r := refDecompress(stream, 1, &pp); r.Err != nil || !bytes.Equal(r.Out, data) {
				fmt.Println("skip (reference does not round-trip):", f)
				continue
			}
			name := fmt.Sprintf("g%02d_%s_%s.knz", i, strings.ReplaceAll(f.P.Transform, "+", "-"), f.P.Entropy)
			os.WriteFile(filepath.Join(goldenDir(), name), stream, 0o644)
			h, hs := sha256.Sum256(data), sha256.Sum256(stream)
			idx = append(idx, goldenEntry{File: name, Params: f.P, Shape: f.Shape, Len: f.Len, SHA256: hex.EncodeToString(h[:]), StreamSHA: hex.EncodeToString(hs[:]), Headerless: f.P.Headerless})
		}
		js, _ := json.MarshalIndent(idx, "", " ")
		os.WriteFile(filepath.Join(goldenDir(), "index.json"), js, 0o644)
		fmt.Println("wrote", len(idx), "golden streams")
	}
}

var famGolden = NewFamily("C10.golden", func(g goldenEntry) (*Fail, bool) {
	stream, err := os.ReadFile(filepath.Join(goldenDir(), g.File))
	if err != nil {
		return failf("harness-golden-missing", "%v", err), false
	}
	if hs := sha256.Sum256(stream); hex.EncodeToString(hs[:]) != g.StreamSHA {
		return failf("harness-golden-corrupt", "archived stream %s does not match its recorded hash", g.File), false
	}
	for _, jobs := range []uint{1, 3} {
		pp := g.Params
		res := decompress(stream, jobs, &pp, 8192)
		h := sha256.Sum256(res.Out)
		if res.Err != nil || !res.EOF || hex.EncodeToString(h[:]) != g.SHA256 || len(res.Out) != g.Len {
			return failf("archived-stream-no-longer-decodes transform="+g.Params.Transform+" entropy="+g.Params.Entropy, "%s (jobs %d): err=%v eof=%v, %d bytes (want %d), sha256 %x want %s", g.File, jobs, res.Err, res.EOF, len(res.Out), g.Len, h[:6], g.SHA256[:12]), true
		}
	}
	return nil, g.Len > 0
})

// verifyRefSnapshot compares the vendored reference with the pinned commit (when git is usable).
func verifyRefSnapshot(c *Ctx) {
	root := filepath.Join(verifRoot, "harness", "ref")
	if err := exec.Command("git", "-C", repoRoot, "cat-file", "-e", refCommit+"^{commit}").Run(); err != nil {
		c.Assume("the vendored reference under /verif/harness/ref equals commit " + refCommit + " (git history not available to re-check it in this run)")
		return
	}
	n, bad := 0, []string{}
	filepath.Walk(root, func(p string, info os.FileInfo, err error) error {
		if err != nil || info.IsDir() || !strings.HasSuffix(p, ".go") {
			return nil
		}
		rel, _ := filepath.Rel(root, p)
		orig, err := exec.Command("git", "-C", repoRoot, "show", refCommit+":v2/"+rel).Output()
		if err != nil {
			bad = append(bad, rel+" (not in commit)")
			return nil
		}
		have, _ := os.ReadFile(p)
		back := strings.ReplaceAll(string(have), `"github.com/flanglet/kanzi-go/v2/zverif/ref/`, `"github.com/flanglet/kanzi-go/v2/`)
		back = strings.ReplaceAll(back, `"github.com/flanglet/kanzi-go/v2/zverif/ref"`, `"github.com/flanglet/kanzi-go/v2"`)
		if back != string(orig) {
			bad = append(bad, rel)
		}
		n++
		return nil
	})
	sort.Strings(bad)
	if len(bad) > 0 {
		c.HarnessError(fmt.Sprintf("vendored reference differs from commit %s in: %v", refCommit, bad))
	}
	c.Extra("reference_files_verified_against_pinned_commit", n)
}

func init() {
	register("C10", "translation_validation", func(c *Ctx) {
		c.Rule("differential check against the pinned reference implementation linked into the same binary: every configuration of the catalogue (every transform x every entropy codec x shapes x lengths; all ordered transform pairs; level presets and 8-stage chains; long blocks (256 KiB + 50 KB of longlit / mixed / allruns / rarerun data through every transform); a block-size ladder 600 KB and 1.2 MB (100 KB..17 MB thorough) for every entropy codec and the size-sensitive transforms; framing: jobs, checksum widths, hints, header/headerless) is ENCODED BY THE REFERENCE writer; where the reference reader restores the input, the current reader (jobs 1 and 3) must return the same bytes and end status. Nothing is asserted about the current writer, so encoder-side repairs cannot alarm. Plus the archived corpus /verif/golden (42 streams, one per transform / entropy codec / checksum width / level) with SHA-256 of the originals. programs = reference-written streams compared; Non-trivial = non-empty input on which the reference round-trips")
		verifyRefSnapshot(c)
		const B = 1024
		famFmt.Each(c, 0, func(emit func(fmtCase)) {
			shapesA := pick(c, []string{"text", "utf8-3", "dna", "elf", "wav16s", "runs", "sparse", "random", "lzbound", "rot256", "allruns", "rarerun"}, shapeNames)
			for _, t := range allTransforms {
				for _, e := range allEntropies {
					for _, sh := range shapesA {
						for _, n := range []int{0, 1, 16, 17, 1023, 1025, 2560, 5123} {
							emit(fmtCase{P: Params{t, e, B, 2, 32, -1, false, false}, Shape: sh, Len: n, Jobs: 1 + uint(n%2)*2})
						}
					}
				}
			}
			for _, t := range allTransforms {
				for _, e := range pick(c, []string{"NONE", "ANS0"}, allEntropies) {
					for _, sh := range pick(c, []string{"text", "utf8-wide", "dna", "lzbound"}, coreShapes) {
						emit(fmtCase{P: Params{t, e, 65536, 3, 64, 65553, false, false}, Shape: sh, Len: 65553, Jobs: 3})
					}
				}
			}
			for _, t1 := range allTransforms[1:] {
				for _, t2 := range allTransforms[1:] {
					for _, sh := range pick(c, []string{"text", "lzbound"}, []string{"text", "dna", "runs", "lzbound", "elf"}) {
						emit(fmtCase{P: Params{t1 + "+" + t2, "HUFFMAN", 4096, 2, 32, -1, false, false}, Shape: sh, Len: 9000, Jobs: 3})
					}
				}
			}
			// long blocks: the shapes x transforms of C01's 256 KiB sub-space and C13's long blocks (literal
			// runs / match lengths / run lengths beyond the short encodings of each codec)
			for _, t := range allTransforms {
				for _, sh := range pick(c, []string{"longlit", "mixed", "allruns", "rarerun"}, []string{"longlit", "mixed", "runs", "allruns", "rarerun", "lzbound", "text"}) {
					emit(fmtCase{P: Params{t, "NONE", 262144, 2, 32, -1, false, false}, Shape: sh, Len: 262144 + 50000, Jobs: 2})
				}
			}
			// 3 MiB blocks dominated by one symbol (frequency / index headers in their longest forms)
			for _, t := range []string{"SRT", "BWT+SRT+ZRLT", "RLT", "ZRLT", "MTFT", "RANK", "BWTS", "LZP", "TEXT+UTF+BWT+SRT+ZRLT"} {
				emit(fmtCase{P: Params{t, "NONE", 4 << 20, 1, 32, -1, false, false}, Shape: "dominant", Len: 3 << 20, Jobs: 1})
			}
			// block-size ladder: codecs pick table sizes / model parameters from the block size
			// (TPAQ at 1, 4, 8, 16 MiB..., text codec, ROLZ, BWT at 4 MiB): one block per stream
			ladder := pick(c, []int{600000, 1200000}, []int{100000, 300000, 600000, 1200000, 2500000, 4500000, 9000000, 17000000})
			for _, n := range ladder {
				for _, e := range allEntropies {
					for _, t := range []string{"NONE", "TEXT"} {
						if (e == "TPAQ" || e == "TPAQX" || e == "CM") && t == "TEXT" && n > 1200000 {
							continue
						}
						if !c.Thorough() && t == "TEXT" && (n != 600000 || (e != "HUFFMAN" && e != "TPAQ" && e != "ANS0")) {
							continue
						}
						if !c.Thorough() && n > 600000 && (e == "TPAQ" || e == "TPAQX" || e == "CM") {
							continue
						}
						emit(fmtCase{P: Params{t, e, 32 << 20, 1, 32, int64(n), false, false}, Shape: "text", Len: n, Jobs: 1})
					}
				}
				for _, t := range []string{"BWT", "BWTS", "LZ", "LZX", "LZP", "ROLZ", "ROLZX", "RLT", "TEXT+UTF+BWT+RANK+ZRLT", "EXE+RLT+TEXT+UTF+DNA"} {
					if !c.Thorough() && n != 600000 {
						continue
					}
					emit(fmtCase{P: Params{t, "ANS0", 32 << 20, 2, 32, -1, false, false}, Shape: "mixed", Len: n, Jobs: 2})
				}
			}
			for _, ps := range levelPresets {
				t, e := splitPreset(ps)
				for _, sh := range shapeNames {
					for _, n := range pick(c, []int{70000}, []int{3000, 70000, 300000}) {
						emit(fmtCase{P: Params{t, e, 65536, 2, 32, -1, false, false}, Shape: sh, Len: n, Jobs: 1})
					}
				}
			}
			for _, ch := range eightChains {
				for _, sh := range coreShapes {
					emit(fmtCase{P: Params{ch, "ANS0", 65536, 2, 32, -1, false, false}, Shape: sh, Len: 70000, Jobs: 3})
				}
			}
			// framing written by the reference (exact or absent hint: the classes on which it round-trips)
			for _, cd := range [][2]string{{"NONE", "NONE"}, {"LZ", "HUFFMAN"}, {"BWT", "ANS0"}} {
				for _, j := range []uint{1, 2, 3, 4, 8, 16, 63, 64} {
					for _, k := range []int{0, 1, 2, int(j), int(j) + 1, 2*int(j) + 1} {
						if k > 20 && cd[0] != "NONE" {
							continue
						}
						for _, d := range []int{-1, 0, 1} {
							n := k*B + d
							if n < 0 {
								continue
							}
							for _, h := range []int64{-1, int64(n)} {
								for _, ck := range []uint{0, 32, 64} {
									for _, hl := range []bool{false, true} {
										emit(fmtCase{P: Params{cd[0], cd[1], B, j, ck, h, hl, false}, Shape: "text", Len: n, Jobs: 3})
									}
								}
							}
						}
					}
				}
			}
		})
		// golden corpus
		idxData, err := os.ReadFile(filepath.Join(goldenDir(), "index.json"))
		if err != nil {
			c.HarnessError("golden corpus index missing: " + err.Error())
			return
		}
		var idx []goldenEntry
		if err := json.Unmarshal(idxData, &idx); err != nil {
			c.HarnessError("golden corpus index unreadable")
			return
		}
		famGolden.Each(c, 0, func(emit func(goldenEntry)) {
			for _, g := range idx {
				emit(g)
			}
		})
		c.mu.Lock()
		c.extra["programs"] = c.evals
		c.extra["disagreements_checked"] = c.evals
		c.mu.Unlock()
	})
}
