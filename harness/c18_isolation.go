package main

// C18 Independent streams do not interfere and internals are race-free.
// (1) E1: two independent pipelines under the controlled scheduler, all interleavings of their
//     synchronisation points up to a preemption bound; each pipeline's output must equal its
//     isolated output. (2) free-running isolation grid over ordered codec pairs. (3) the same
//     bodies in a separate binary built with -race, run free (the cooperative scheduler's
//     hand-offs would hide races): any report of the Go race detector is a violation.

import (
	"encoding/json"
	"encoding/hex"
	"crypto/sha256"
	kio "github.com/flanglet/kanzi-go/v2/io"
	kanzi "github.com/flanglet/kanzi-go/v2"
	"sync/atomic"
	"bytes"
	"fmt"
	"os"
	"os/exec"
	"regexp"
	"sort"
	"strings"
	"sync"
	"time"
)

type isoCase struct {
	A, B   [2]string `json:"-"`
	TA     string    `json:"transform_a"`
	EA     string    `json:"entropy_a"`
	TB     string    `json:"transform_b"`
	EB     string    `json:"entropy_b"`
	Jobs   uint      `json:"jobs"`
	Len    int       `json:"len"`
	Block  uint      `json:"block"`
	Rounds int       `json:"rounds"`
	K      int       `json:"k"` // concurrent pipelines
	Ck     int       `json:"checksum,omitempty"` // 0 = 32 bits (default), 64, -1 = none
	// Feat: optional code paths inside one instance: "listener" (block listeners on Writer and Reader,
	// verbosity 5 so that BLOCK_INFO events are built), "skip" (skipBlocks), "range" (from/to)
	Feat string `json:"feature,omitempty"`
	// Shape overrides the data shape chosen from the transform name
	Shape string `json:"shape,omitempty"`
}

func (i isoCase) String() string {
	if i.Ck != 0 || i.Feat != "" || i.Shape != "" {
		return fmt.Sprintf("%s/%s|%s/%s|%d|%d|%d|%d|%d|ck%d|%s|%s", i.TA, i.EA, i.TB, i.EB, i.Jobs, i.Len, i.Block, i.Rounds, i.K, i.Ck, i.Feat, i.Shape)
	}
	return fmt.Sprintf("%s/%s|%s/%s|%d|%d|%d|%d|%d", i.TA, i.EA, i.TB, i.EB, i.Jobs, i.Len, i.Block, i.Rounds, i.K)
}

func shapeFor(t string) string {
	switch {
	case strings.Contains(t, "DNA") && !strings.Contains(t, "+"), t == "PACK":
		return "dna"
	case t == "EXE":
		return "elf"
	case t == "MM":
		return "wav16s"
	case t == "UTF":
		return "utf8-3"
	}
	return "text"
}

// pipeline: compress then decompress; returns stream and decoded bytes
type nopListener struct{ n int64 }

func (l *nopListener) ProcessEvent(evt *kanzi.Event) { atomic.AddInt64(&l.n, int64(evt.Type())+1) }

func pipeline(t, e string, blk, jobs uint, data []byte, ck int, feat ...string) ([]byte, []byte, error) {
	cks := uint(32)
	switch ck {
	case 64:
		cks = 64
	case -1:
		cks = 0
	}
	f := ""
	if len(feat) > 0 {
		f = feat[0]
	}
	p := Params{t, e, blk, jobs, cks, int64(len(data)), false, f == "skip"}
	if f == "" || f == "skip" {
		stream, where, err := compress(data, p)
		if err != nil {
			return nil, nil, fmt.Errorf("%s: %v", where, err)
		}
		res := decompress(stream, jobs, nil, 8192)
		if res.Err != nil {
			return stream, res.Out, res.Err
		}
		return stream, res.Out, nil
	}
	// listener / range: drive the objects directly
	sk := &memSink{}
	wctx := p.ctx()
	wctx["verbosity"] = uint(5)
	w, err := kio.NewWriterWithCtx(sk, wctx)
	if err != nil {
		return nil, nil, err
	}
	wl := &nopListener{}
	w.AddListener(wl)
	if _, err := w.Write(data); err != nil {
		return nil, nil, fmt.Errorf("write: %v", err)
	}
	if err := w.Close(); err != nil {
		return nil, nil, fmt.Errorf("close: %v", err)
	}
	rctx := map[string]any{"jobs": jobs, "verbosity": uint(5)}
	want := data
	if f == "range" {
		nb := (len(data) + int(blk) - 1) / int(blk)
		from, to := 2, max(nb, 3)
		rctx["from"], rctx["to"] = from, to
		lo, hi := min((from-1)*int(blk), len(data)), min((to-1)*int(blk), len(data))
		want = data[lo:hi]
	}
	r, err := kio.NewReaderWithCtx(newSrc(sk.Bytes()), rctx)
	if err != nil {
		return sk.Bytes(), nil, err
	}
	rl := &nopListener{}
	r.AddListener(rl)
	res := drain(r, 8192, 0)
	r.Close()
	if res.Err != nil {
		return sk.Bytes(), res.Out, res.Err
	}
	if f == "range" {
		// the caller compares with the whole input: give it back when the slice is right
		if !bytes.Equal(res.Out, want) {
			return sk.Bytes(), res.Out, fmt.Errorf("range decode returned a wrong slice (%d bytes, want %d)", len(res.Out), len(want))
		}
		return sk.Bytes(), data, nil
	}
	return sk.Bytes(), res.Out, nil
}

// freshAlone returns the SHA-256 of the stream the pipeline writes when it is the ONLY thing a fresh
// process ever runs ("the results they produce when run alone" cannot be taken from a process that
// has already run other instances: package-level caches would be warm). Results are memoised.
type aloneKey struct {
	T, E  string
	Block uint
	Jobs  uint
	Len   int
	Ck    int
	Feat  string
	Shape string
}

var (
	aloneMu    sync.Mutex
	aloneCache = map[aloneKey]string{}
)

func freshAlone(k aloneKey) string {
	aloneMu.Lock()
	if v, ok := aloneCache[k]; ok {
		aloneMu.Unlock()
		return v
	}
	aloneMu.Unlock()
	js, _ := json.Marshal(k)
	exe, _ := os.Executable()
	out, err := exec.Command(exe, "isoalone", string(js)).Output()
	v := strings.TrimSpace(string(out))
	if err != nil || len(v) != 64 {
		v = "" // unknown: no comparison
	}
	aloneMu.Lock()
	aloneCache[k] = v
	aloneMu.Unlock()
	return v
}

func init() {
	workerCmds["isoalone"] = func(args []string) {
		var k aloneKey
		if json.Unmarshal([]byte(args[0]), &k) != nil {
			os.Exit(2)
		}
		sh := k.Shape
		if sh == "" {
			sh = shapeFor(k.T)
		}
		st, _, err := pipeline(k.T, k.E, k.Block, k.Jobs, shape(sh, k.Len), k.Ck, k.Feat)
		if err != nil {
			os.Exit(3)
		}
		h := sha256.Sum256(st)
		fmt.Println(hex.EncodeToString(h[:]))
	}
}

func runIso(c isoCase) (*Fail, bool) {
	type spec struct{ t, e string }
	specs := []spec{{c.TA, c.EA}, {c.TB, c.EB}}
	for len(specs) < c.K {
		specs = append(specs, specs[len(specs)%2])
	}
	datas := make([][]byte, len(specs))
	alone := make([][]byte, len(specs))
	for i, s := range specs {
		sh := c.Shape
		if sh == "" {
			sh = shapeFor(s.t)
		}
		datas[i] = shape(sh, c.Len+i*13)
		st, out, err := pipeline(s.t, s.e, c.Block, c.Jobs, datas[i], c.Ck, c.Feat)
		if err != nil || !bytes.Equal(out, datas[i]) {
			return nil, false // C01's business
		}
		alone[i] = st
	}
	fresh := make([]string, len(specs))
	if !isoNoFresh {
		for i, s := range specs {
			fresh[i] = freshAlone(aloneKey{s.t, s.e, c.Block, c.Jobs, c.Len + i*13, c.Ck, c.Feat, c.Shape})
		}
	}
	for r := 0; r < max(c.Rounds, 1); r++ {
		var wg sync.WaitGroup
		errs := make([]string, len(specs))
		for i, s := range specs {
			wg.Add(1)
			go func(i int, s spec) {
				defer wg.Done()
				defer func() {
					if rec := recover(); rec != nil {
						errs[i] = fmt.Sprintf("panic: %v", rec)
					}
				}()
				st, out, err := pipeline(s.t, s.e, c.Block, c.Jobs, datas[i], c.Ck, c.Feat)
				switch {
				case err != nil:
					errs[i] = "error: " + err.Error()
				case !bytes.Equal(st, alone[i]):
					errs[i] = fmt.Sprintf("stream differs from the isolated run at byte %d", firstDiff(st, alone[i]))
				case fresh[i] != "" && func() bool { h := sha256.Sum256(st); return hex.EncodeToString(h[:]) != fresh[i] }():
					errs[i] = "stream differs from the one the same pipeline writes when it is the only instance a fresh process ever runs (state left behind by other instances)"
				case !bytes.Equal(out, datas[i]):
					errs[i] = fmt.Sprintf("decoded bytes differ at %d", firstDiff(out, datas[i]))
				}
			}(i, s)
		}
		wg.Wait()
		for i, e := range errs {
			if e != "" {
				return failf(fmt.Sprintf("interference %s/%s with %s/%s", specs[i].t, specs[i].e, specs[1-i%2].t, specs[1-i%2].e), "%s: pipeline %d run concurrently with the other(s): %s (round %d)", c, i, e, r), true
			}
		}
	}
	return nil, true
}

// isoNoFresh: the -race binary skips the fresh-process comparison (its job is the race reports)
var isoNoFresh = false

var famIso = NewFamily("C18.isolation", runIso)

func isoCatalogue(c *Ctx, race bool) []isoCase {
	var out []isoCase
	type cd struct{ t, e string }
	var codecs []cd
	for _, t := range allTransforms[1:] {
		codecs = append(codecs, cd{t, "NONE"})
	}
	for _, e := range allEntropies[1:] {
		codecs = append(codecs, cd{"NONE", e})
	}
	// checksum widths other than 32 bits: the hashers are shared by the tasks of one instance
	ckCases := func() []isoCase {
		var o []isoCase
		for _, ck := range []int{64, -1} {
			for _, j := range []uint{2, 3, 8} {
				for _, k := range []cd{{"NONE", "NONE"}, {"LZ", "HUFFMAN"}} {
					o = append(o, isoCase{TA: k.t, EA: k.e, TB: k.t, EB: k.e, Jobs: j, Len: int(j)*2048 + 700, Block: 1024, Rounds: 2, K: 1, Ck: ck})
					o = append(o, isoCase{TA: k.t, EA: k.e, TB: "BWT", EB: "ANS0", Jobs: j, Len: int(j)*2048 + 700, Block: 1024, Rounds: 1, K: 2, Ck: ck})
				}
			}
		}
		// optional code paths of one instance: listeners (+ verbosity 5), skipBlocks, block ranges
		for _, ft := range []string{"listener", "skip", "range"} {
			for _, j := range []uint{3, 8} {
				o = append(o, isoCase{TA: "LZ", EA: "HUFFMAN", TB: "LZ", EB: "HUFFMAN", Jobs: j, Len: int(j)*2048 + 700, Block: 1024, Rounds: 2, K: 1, Feat: ft})
				o = append(o, isoCase{TA: "NONE", EA: "NONE", TB: "TEXT", EB: "ANS0", Jobs: j, Len: int(j)*2048 + 700, Block: 1024, Rounds: 1, K: 2, Ck: 64, Feat: ft})
			}
		}
		// adaptive codecs on larger, heterogeneous blocks (text and binary stretches in one block:
		// the predictors switch between their model variants), every ordered pair
		if !race {
			ad := []cd{{"NONE", "TPAQ"}, {"NONE", "TPAQX"}, {"NONE", "CM"}, {"TEXT", "TPAQ"}, {"NONE", "FPAQ"}}
			for _, a := range ad {
				for _, b := range ad {
					o = append(o, isoCase{TA: a.t, EA: a.e, TB: b.t, EB: b.e, Jobs: 1, Len: 100000, Block: 65536, Rounds: 1, K: 2, Shape: "mixed"})
				}
			}
		}
		return o
	}
	thorough := c != nil && c.Thorough()
	n := 6000
	if race {
		n = 3000
	}
	if race && !thorough {
		// quick race tier: every codec against itself and against its two successors in the list
		// (both orders), one real block + one copy block per pipeline
		n = 1030
		for i, a := range codecs {
			for _, d := range []int{0, 1, 2} {
				b := codecs[(i+d)%len(codecs)]
				out = append(out, isoCase{TA: a.t, EA: a.e, TB: b.t, EB: b.e, Jobs: 2, Len: n, Block: 1024, Rounds: 1, K: 2})
				if d > 0 {
					out = append(out, isoCase{TA: b.t, EA: b.e, TB: a.t, EB: a.e, Jobs: 2, Len: n, Block: 1024, Rounds: 1, K: 2})
				}
			}
		}
		for i := 0; i < len(levelPresets); i += 3 {
			t, e := splitPreset(levelPresets[i])
			t2, e2 := splitPreset(levelPresets[(i+4)%len(levelPresets)])
			out = append(out, isoCase{TA: t, EA: e, TB: t2, EB: e2, Jobs: 2, Len: 9000, Block: 4096, Rounds: 1, K: 2})
		}
		for _, j := range []uint{3, 8} {
			for _, k := range []cd{{"LZ", "HUFFMAN"}, {"BWT", "ANS0"}, {"ROLZ", "NONE"}, {"RLT+LZP", "FPAQ"}} {
				out = append(out, isoCase{TA: k.t, EA: k.e, TB: k.t, EB: k.e, Jobs: j, Len: int(j)*1024 + 700, Block: 1024, Rounds: 1, K: 1})
			}
		}
		return append(out, ckCases()...)
	}
	// every ordered pair (incl. a codec with itself) as K=2 concurrent pipelines
	for _, a := range codecs {
		for _, b := range codecs {
			out = append(out, isoCase{TA: a.t, EA: a.e, TB: b.t, EB: b.e, Jobs: 2, Len: n, Block: 1024, Rounds: 1, K: 2})
		}
	}
	// level presets as K=3
	for i, ps := range levelPresets {
		t, e := splitPreset(ps)
		t2, e2 := splitPreset(levelPresets[(i+3)%len(levelPresets)])
		out = append(out, isoCase{TA: t, EA: e, TB: t2, EB: e2, Jobs: 3, Len: 40000, Block: 16384, Rounds: 1, K: 3})
	}
	// many jobs inside one pipeline
	for _, j := range []uint{2, 3, 4, 8, 16} {
		for _, k := range []cd{{"LZ", "HUFFMAN"}, {"BWT", "ANS0"}, {"TEXT+UTF+BWT+RANK+ZRLT", "ANS0"}, {"ROLZ", "NONE"}, {"TEXT", "TPAQ"}, {"RLT+LZP", "CM"}} {
			if race && (k.e == "TPAQ" || k.e == "CM") && j > 4 {
				continue
			}
			out = append(out, isoCase{TA: k.t, EA: k.e, TB: k.t, EB: k.e, Jobs: j, Len: int(j)*2048 + 700, Block: 1024, Rounds: 1, K: 1})
		}
	}
	// > 4 MiB BWT block: parallel inverse inside one block
	big := 4<<20 + 70000
	out = append(out, isoCase{TA: "BWT", EA: "NONE", TB: "BWT", EB: "ANS0", Jobs: 4, Len: big, Block: 8 << 20, Rounds: 1, K: 2})
	return append(out, ckCases()...)
}

var raceHdr = regexp.MustCompile(`^(Read|Write|Previous read|Previous write) at 0x[0-9a-f]+ by `)

// parseRaces extracts (fingerprint, report) pairs from the race detector's output.
func parseRaces(out string) map[string]string {
	res := map[string]string{}
	blocks := strings.Split(out, "WARNING: DATA RACE")
	for _, b := range blocks[1:] {
		if i := strings.Index(b, "=================="); i >= 0 {
			b = b[:i]
		}
		lines := strings.Split(b, "\n")
		var tops []string
		for i := 0; i < len(lines); i++ {
			if raceHdr.MatchString(strings.TrimSpace(lines[i])) {
				// first frame inside the repository
				for j := i + 1; j < len(lines) && strings.TrimSpace(lines[j]) != ""; j++ {
					f := strings.TrimSpace(lines[j])
					if strings.HasPrefix(f, "github.com/flanglet/kanzi-go/v2/") && !strings.Contains(f, "/zverif") {
						f = strings.TrimPrefix(f, "github.com/flanglet/kanzi-go/v2/")
						if k := strings.Index(f, "("); k > 0 && !strings.HasPrefix(f[k:], "(*") {
							f = f[:k]
						} else if k := strings.LastIndex(f, "("); k > 0 {
							f = f[:k]
						}
						tops = append(tops, f)
						break
					}
				}
			}
		}
		sort.Strings(tops)
		fp := "data-race " + strings.Join(tops, " <-> ")
		if _, ok := res[fp]; !ok {
			res[fp] = trunc(strings.TrimSpace(b), 1800)
		}
	}
	return res
}

type raceCase struct {
	Report string `json:"race_report"`
	Note   string `json:"note"`
}

func init() {
	// executed inside the -race binary, free-running
	workerCmds["racepass"] = func(args []string) {
		tier := "quick"
		if len(args) > 0 {
			tier = args[0]
		}
		c := newCtx("C18", tier, "other")
		isoNoFresh = true
		cases := isoCatalogue(c, true)
		ch := make(chan isoCase, len(cases))
		for _, cs := range cases {
			ch <- cs
		}
		close(ch)
		var wg sync.WaitGroup
		var mu sync.Mutex
		bad := 0
		for w := 0; w < 12; w++ {
			wg.Add(1)
			go func() {
				defer wg.Done()
				for cs := range ch {
					t0 := time.Now()
					f, _ := famIso.safeRun(cs)
					if os.Getenv("KZMC_RACE_TIMING") != "" {
						fmt.Printf("TIME %d ms %s\n", time.Since(t0).Milliseconds(), cs)
					}
					if f != nil {
						mu.Lock()
						bad++
						fmt.Printf("ISOFAIL %s :: %s\n", f.FP, f.Detail)
						mu.Unlock()
					}
				}
			}()
		}
		wg.Wait()
		fmt.Printf("RACEPASS-DONE cases=%d isolation_failures=%d\n", len(cases), bad)
	}

	NewFamily("C18.race", func(r raceCase) (*Fail, bool) {
		return failf("harness", "a race report cannot be replayed as a single case; re-run `bin/check C18 quick` (the report is in the replay file)"), true
	})

	register("C18", "other", func(c *Ctx) {
		c.Rule("(1) model-checked: two independent pipelines (writer||writer, writer||reader, reader||reader; jobs 2 each) under the controlled scheduler, every interleaving of their synchronisation points with 0 preemptions (all choices at blocking points; 1 for writer||writer) in quick, 1 (2) in thorough, over codec pairs that share package-level tables; each pipeline's result must equal its isolated result. (2) free-running isolation grid (each concurrent stream is also compared with the stream the same pipeline writes as the only instance of a fresh process, so state left behind by earlier instances shows): every ordered pair of the 18+8 codecs as 2 concurrent pipelines, level presets as 3, jobs 2..16 in one pipeline, a > 4 MiB BWT block. (3) the same grid bodies in a binary built with -race and run free: any Go race detector report is a violation (fingerprint = the two access sites)")
		c.Extra("explanation", "Data-race freedom is decided by a dynamic happens-before monitor (Go race detector) over an exhaustively enumerated CATALOGUE of concurrent configurations, not over all schedules: a cooperative scheduler orders everything and would blind the detector, so that pass runs free. A race between two pipelines that share no synchronisation is reported regardless of timing (no happens-before edge can exist), so for inter-instance state the pass is schedule-insensitive; intra-instance protocol state is covered schedule-exhaustively by C07's exclusivity oracle. Non-interference of results is model-checked for 2 pipelines x 2 jobs up to the stated preemption bound.")
		// (3) the race pass runs in its own process, concurrently with (1) and (2)
		bin := os.Getenv("KZMC_RACE_BIN")
		if bin == "" {
			c.HarnessError("KZMC_RACE_BIN not set: run through bin/check, which builds the -race binary")
			return
		}
		var so, se bytes.Buffer
		var raceErr error
		var raceWall float64
		raceDone := make(chan struct{})
		go func() {
			t0 := time.Now()
			cmd := exec.Command(bin, "racepass", c.Tier)
			cmd.Env = append(os.Environ(), "GORACE=halt_on_error=0 history_size=3")
			cmd.Stdout, cmd.Stderr = &so, &se
			raceErr = cmd.Run()
			raceWall = time.Since(t0).Seconds()
			close(raceDone)
		}()
		// (1) E1 pairs
		var specs []e1Spec
		mk := func(kind string, t, e string) e1Spec {
			s := e1Spec{Kind: kind, Jobs: 2, Blocks: 1, Tail: 100, Hint: -1, Transform: t, Entropy: e, Checksum: 32, FaultThread: -1}
			if kind == "dec" {
				s.Blocks, s.Tail = 0, 700 // one data task + the end-of-stream task
			}
			return s
		}
		pairs := [][2][2]string{{{"TEXT", "HUFFMAN"}, {"TEXT", "HUFFMAN"}}, {{"LZ", "HUFFMAN"}, {"LZP", "RANGE"}}, {{"BWT", "ANS0"}, {"BWTS", "ANS1"}}, {{"ROLZ", "NONE"}, {"ROLZX", "NONE"}}, {{"NONE", "TPAQ"}, {"NONE", "CM"}}}
		if !c.Thorough() {
			pairs = pairs[:2]
		}
		for _, pr := range pairs {
			for _, kinds := range [][2]string{{"enc", "enc"}, {"enc", "dec"}, {"dec", "dec"}} {
				a, b := mk(kinds[0], pr[0][0], pr[0][1]), mk(kinds[1], pr[1][0], pr[1][1])
				s := e1Spec{Name: fmt.Sprintf("pair %s %s/%s || %s %s/%s", kinds[0], a.Transform, a.Entropy, kinds[1], b.Transform, b.Entropy), Kind: "pair", Jobs: 2, Members: []e1Spec{a, b}, FaultThread: -1, Mode: "bounded", Bound: pick(c, 0, 1), MaxSecs: pick(c, 400, 1800)}
				if kinds[0] == "enc" && kinds[1] == "enc" {
					s.Bound = pick(c, 1, 2)
				}
				if kinds[0] == "dec" || kinds[1] == "dec" {
					s.Bound = pick(c, 1, 2)
				}
				s.Oracles = []string{"*"}
				specs = append(specs, s)
			}
		}
		results := e1RunAll(c, specs, 16)
		e1Summary(c, results)
		// (2) isolation grid, normal build
		famIso.Each(c, 0, func(emit func(isoCase)) {
			for _, cs := range isoCatalogue(c, false) {
				cs.Rounds = 2
				emit(cs)
			}
		})
		// (3) join the race pass started at the beginning
		<-raceDone
		err, done := raceErr, strings.Contains(so.String(), "RACEPASS-DONE")
		races := parseRaces(se.String())
		c.Extra("race_pass", map[string]any{"wall_s": raceWall, "configurations": len(isoCatalogue(c, true)), "race_reports": len(races), "completed": done})
		c.mu.Lock()
		c.evals += int64(len(isoCatalogue(c, true)))
		c.mu.Unlock()
		for fp, rep := range races {
			c.Violate("C18.race", raceCase{Report: rep, Note: "reported by the Go race detector in the free-running -race pass"}, &Fail{FP: fp, Detail: trunc(rep, 700)})
		}
		for _, l := range strings.Split(so.String(), "\n") {
			if strings.HasPrefix(l, "ISOFAIL ") {
				parts := strings.SplitN(strings.TrimPrefix(l, "ISOFAIL "), " :: ", 2)
				c.Violate("C18.race", raceCase{Report: l, Note: "isolation failure seen in the -race pass"}, &Fail{FP: parts[0], Detail: l})
			}
		}
		if !done {
			c.HarnessError(fmt.Sprintf("race pass did not complete (%v): %s", err, trunc(se.String(), 800)))
		}
	})
}
