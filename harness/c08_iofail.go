package main

// C08 I/O failures are never swallowed.
// E2: the k-th call of the underlying sink/source fails, for every k of the fault-free run, x kind
// x job count x caller policy; pairs of transient faults; a sweep that puts a flush inside the
// end-of-stream marker. E1: the same failures under every interleaving of the tasks (jobs 2,3).

import (
	"bytes"
	"errors"
	"fmt"
	"io"

	"github.com/flanglet/kanzi-go/v2/bitstream"
	kio "github.com/flanglet/kanzi-go/v2/io"
)

var errInjected = errors.New("injected I/O failure")

// faultSink fails according to a plan indexed by Write call number.
type faultSink struct {
	buf      bytes.Buffer
	n        int
	plan     map[int]string // call index -> "err" (0,err) | "partial" (n/2,err)
	from     int            // persistent failure from this call on (-1 none)
	closeErr int            // number of times Close fails first
	closes   int
	faults   int
}

func (s *faultSink) Write(p []byte) (int, error) {
	i := s.n
	s.n++
	if s.from >= 0 && i >= s.from {
		s.faults++
		return 0, errInjected
	}
	switch s.plan[i] {
	case "err":
		s.faults++
		return 0, errInjected
	case "partial":
		s.faults++
		s.buf.Write(p[:len(p)/2])
		return len(p) / 2, errInjected
	}
	return s.buf.Write(p)
}

func (s *faultSink) Close() error {
	s.closes++
	if s.closes <= s.closeErr {
		s.faults++
		return errInjected
	}
	return nil
}

type wfCase struct {
	P      Params `json:"params"`
	Len    int    `json:"len"`
	Kind   string `json:"kind"` // "err-once" | "partial-persist" | "persist" | "close-once" | "two-transient"
	K      int    `json:"k"`
	K2     int    `json:"k2,omitempty"`
	Policy string `json:"policy"` // "stop" | "continue" | "close-twice"
	Parts  int    `json:"write_size"`
}

func (w wfCase) String() string {
	return fmt.Sprintf("%s|%d|%s|%d|%d|%s|%d", w.P, w.Len, w.Kind, w.K, w.K2, w.Policy, w.Parts)
}

func runWriterFault(w wfCase) (fl *Fail, nt bool) {
	data := shape("random", w.Len)
	ref, _, err := compress(data, w.P)
	if err != nil {
		return failf("harness-compress", "%v", err), false
	}
	sk := &faultSink{plan: map[int]string{}, from: -1}
	switch w.Kind {
	case "err-once":
		sk.plan[w.K] = "err"
	case "two-transient":
		sk.plan[w.K] = "err"
		sk.plan[w.K2] = "err"
	case "partial-persist":
		sk.plan[w.K] = "partial"
		sk.from = w.K + 1
	case "persist":
		sk.from = w.K
	case "close-once":
		sk.closeErr = 1
	case "close-persist":
		sk.closeErr = 1 << 30
	}
	jc := jobsClass(w.P.Jobs)
	defer func() {
		if r := recover(); r != nil {
			fl = failf(fmt.Sprintf("panic-escaped writer kind=%s jobs=%s", w.Kind, jc), "a sink failure escaped as a panic (%s): %v", w, r)
			nt = true
		}
	}()
	wr, err := kio.NewWriterWithCtx(sk, w.P.ctx())
	if err != nil {
		return failf("harness-ctor", "%v", err), false
	}
	var log []string
	sawErr := false
	faultsAtFirstErr := -1
	okAfterFault := func() bool { return sk.faults > 0 && !sawErr }
	_ = okAfterFault
	off := 0
	stopped := false
	for off < len(data) {
		n := min(w.Parts, len(data)-off)
		k, e := wr.Write(data[off : off+n])
		log = append(log, fmt.Sprintf("Write=%d,%v", k, e != nil))
		if e != nil {
			if !sawErr {
				faultsAtFirstErr = sk.faults
			}
			sawErr = true
			if w.Policy == "stop" || w.Policy == "close-twice" {
				stopped = true
				break
			}
			off += n // the caller ignores the error and goes on with the next chunk
			continue
		}
		if k != n {
			return failf(fmt.Sprintf("short-write-no-error jobs=%s", jc), "Write returned %d of %d with nil error", k, n), true
		}
		off += n
	}
	_ = stopped
	closeOK := false
	nClose := 1
	if w.Policy == "close-twice" || w.Kind == "close-once" || w.Kind == "close-persist" {
		nClose = 3
	}
	for i := 0; i < nClose; i++ {
		e := wr.Close()
		log = append(log, fmt.Sprintf("Close=%v", e != nil))
		if e != nil {
			if !sawErr {
				faultsAtFirstErr = sk.faults
			}
			sawErr = true
		} else {
			closeOK = true
			break
		}
	}
	_ = faultsAtFirstErr
	if sk.faults > 0 && !sawErr {
		return failf(fmt.Sprintf("sink-failure-never-reported kind=%s jobs=%s", w.Kind, jc), "the sink failed %d time(s) but no Write/Close returned an error (%s): %v", sk.faults, w, log), true
	}
	if closeOK && w.Kind == "close-persist" {
		return failf(fmt.Sprintf("close-ok-although-underlying-close-fails jobs=%s", jc), "the sink's Close() fails every time, yet Writer.Close returned nil (%s): %v", w, log), true
	}
	if closeOK && !bytes.Equal(sk.buf.Bytes(), ref) {
		return failf(fmt.Sprintf("close-ok-on-incomplete-stream kind=%s policy=%s jobs=%s", w.Kind, w.Policy, jc), "Close returned nil but the sink holds %d bytes, the complete stream has %d (first difference at %d) (%s): %v", sk.buf.Len(), len(ref), firstDiff(sk.buf.Bytes(), ref), w, log), true
	}
	if closeOK {
		if got := wr.GetWritten(); got != uint64(len(ref)) && sk.faults == 0 {
			return failf("getwritten-mismatch", "GetWritten=%d, sink received %d", got, len(ref)), true
		}
	}
	return nil, sk.faults > 0
}

var famWF = NewFamily("C08.writer", runWriterFault)

// faultSrc serves a stream and fails according to a plan indexed by Read call number.
type faultSrc struct {
	data   []byte
	off    int
	n      int
	plan   map[int]string // "err" (0,err) | "data+err" (n,err)
	from   int
	chunk  int
	faults int
	// number of stream bytes not yet delivered when the first fault was raised
	leftAtFault int
}

func (s *faultSrc) Read(p []byte) (int, error) {
	i := s.n
	s.n++
	if s.from >= 0 && i >= s.from {
		if s.faults == 0 {
			s.leftAtFault = len(s.data) - s.off
		}
		s.faults++
		return 0, errInjected
	}
	if s.plan[i] == "err" {
		if s.faults == 0 {
			s.leftAtFault = len(s.data) - s.off
		}
		s.faults++
		return 0, errInjected
	}
	if s.off >= len(s.data) {
		return 0, io.EOF
	}
	n := min(len(p), len(s.data)-s.off)
	if s.chunk > 0 {
		n = min(n, s.chunk)
	}
	copy(p, s.data[s.off:s.off+n])
	s.off += n
	if s.plan[i] == "data+err" {
		s.faults++
		return n, errInjected
	}
	return n, nil
}
func (s *faultSrc) Close() error { return nil }

type rfCase struct {
	P       Params `json:"params"`
	Len     int    `json:"len"`
	DecJobs uint   `json:"dec_jobs"`
	Kind    string `json:"kind"` // "err-once" | "data+err-once" | "persist" | "two-transient"
	K       int    `json:"k"`
	K2      int    `json:"k2,omitempty"`
	Chunk   int    `json:"chunk"` // source serves at most this many bytes per call (0 = as asked); 13 and 1001 make the bitstream complete partial words with extra reads
	RB      int    `json:"read_buf"`
}

func (r rfCase) String() string {
	return fmt.Sprintf("%s|%d|%d|%s|%d|%d|%d|%d", r.P, r.Len, r.DecJobs, r.Kind, r.K, r.K2, r.Chunk, r.RB)
}

func runReaderFault(r rfCase) (fl *Fail, nt bool) {
	data := shape("random", r.Len)
	stream, _, err := compress(data, r.P)
	if err != nil {
		return failf("harness-compress", "%v", err), false
	}
	src := &faultSrc{data: stream, plan: map[int]string{}, from: -1, chunk: r.Chunk}
	switch r.Kind {
	case "err-once":
		src.plan[r.K] = "err"
	case "data+err-once":
		src.plan[r.K] = "data+err"
	case "two-transient":
		src.plan[r.K] = "err"
		src.plan[r.K2] = "err"
	case "persist":
		src.from = r.K
	}
	jc := jobsClass(r.DecJobs)
	defer func() {
		if rec := recover(); rec != nil {
			fl = failf(fmt.Sprintf("panic-escaped reader kind=%s jobs=%s", r.Kind, jc), "a source failure escaped as a panic (%s): %v", r, rec)
			nt = true
		}
	}()
	rd, err := kio.NewReaderWithCtx(src, map[string]any{"jobs": r.DecJobs})
	if err != nil {
		return failf("harness-ctor", "%v", err), false
	}
	res := drain(rd, r.RB, 3)
	rd.Close()
	if !isPrefix(res.Out, data) {
		return failf(fmt.Sprintf("wrong-bytes reader kind=%s jobs=%s", r.Kind, jc), "bytes delivered are not a prefix of the original (%s): %d delivered, first difference %d, err=%v", r, len(res.Out), firstDiff(res.Out, data[:min(len(data), len(res.Out))]), res.Err), true
	}
	if res.Err == nil {
		// no error was ever reported: then everything must have been delivered
		if !bytes.Equal(res.Out, data) {
			return failf(fmt.Sprintf("source-failure-became-clean-eof kind=%s jobs=%s", r.Kind, jc), "the source failed %d time(s); Read reported a clean end of stream after %d of %d bytes (%s)", src.faults, len(res.Out), len(data), r), true
		}
		if src.faults > 0 && r.Kind != "data+err-once" && src.leftAtFault > 0 {
			// the source failed while bytes of the stream were still outstanding: the library had to call
			// Read again to get them, so it saw the failure - and reported nothing
			return failf(fmt.Sprintf("source-failure-never-reported kind=%s jobs=%s", r.Kind, jc), "the source failed %d time(s) with %d bytes of the stream still to come; every Read returned success and the data is complete - the failure was swallowed (%s)", src.faults, src.leftAtFault, r), true
		}
		if src.faults > 0 && r.Kind != "data+err-once" {
			// the failure hit a call whose result was not needed (after the last byte was delivered): fine
			return nil, false
		}
	}
	return nil, src.faults > 0
}

var famRF = NewFamily("C08.reader", runReaderFault)

// ---- bitstream level: the k-th call of the sink / source under a DefaultOutput/InputBitStream fails ----

type bsFaultCase struct {
	Dir    string `json:"dir"` // "out" | "in"
	Buf    uint   `json:"buffer"`
	Pre    uint   `json:"prefix_bits"`
	ArrLen int    `json:"array_bytes"`
	Cut    uint   `json:"array_bits_less"` // the array op transfers 8*ArrLen-Cut bits
	Kind   string `json:"kind"`            // "err-once" | "persist" | "partial-persist" | "data+err-once"
	K      int    `json:"k"`
}

func (b bsFaultCase) String() string {
	return fmt.Sprintf("%s|%d|%d|%d|%d|%s|%d", b.Dir, b.Buf, b.Pre, b.ArrLen, b.Cut, b.Kind, b.K)
}

// bsProgram runs prefix bits, one array transfer, 13 more bits and Close on an output bitstream
// over sk; returns whether any operation reported a failure (panic or Close error) and whether
// some Close returned nil.
func bsOutProgram(b bsFaultCase, sk io.WriteCloser, arr []byte) (reported, closeOK bool) {
	obs, err := bitstream.NewDefaultOutputBitStream(sk, b.Buf)
	if err != nil {
		panic("harness: " + err.Error())
	}
	step := func(f func()) {
		defer func() {
			if r := recover(); r != nil {
				reported = true
			}
		}()
		f()
	}
	if b.Pre > 0 {
		step(func() { obs.WriteBits(0x5555555555555555, b.Pre) })
	}
	step(func() { obs.WriteArray(arr, uint(8*len(arr))-b.Cut) })
	step(func() { obs.WriteBits(0x1ABC, 13) })
	for i := 0; i < 2 && !closeOK; i++ {
		step(func() {
			if e := obs.Close(); e != nil {
				reported = true
			} else {
				closeOK = true
			}
		})
	}
	return
}

var famBSFault = NewFamily("C08.bitstream", func(b bsFaultCase) (*Fail, bool) {
	arr := genRandom(b.ArrLen, uint64(b.ArrLen))
	if b.Dir == "out" {
		ref := &faultSink{plan: map[int]string{}, from: -1}
		bsOutProgram(b, ref, arr)
		sk := &faultSink{plan: map[int]string{}, from: -1}
		switch b.Kind {
		case "err-once":
			sk.plan[b.K] = "err"
		case "persist":
			sk.from = b.K
		case "partial-persist":
			sk.plan[b.K] = "partial"
			sk.from = b.K + 1
		}
		reported, closeOK := bsOutProgram(b, sk, arr)
		if sk.faults == 0 {
			return nil, false
		}
		complete := bytes.Equal(sk.buf.Bytes(), ref.buf.Bytes())
		if !reported && !complete {
			return failf("bitstream-sink-failure-never-reported kind="+b.Kind, "%s: the sink rejected %d write(s), no operation panicked and Close returned nil, yet the sink holds %d of %d bytes", b, sk.faults, sk.buf.Len(), ref.buf.Len()), true
		}
		if closeOK && !complete && b.Kind != "err-once" {
			return failf("bitstream-close-ok-while-sink-keeps-failing kind="+b.Kind, "%s: Close returned nil although the sink still rejects writes (%d of %d bytes arrived)", b, sk.buf.Len(), ref.buf.Len()), true
		}
		return nil, true
	}
	// input side: bytes = prefix + array + tail written by a healthy output bitstream
	w := &memSink{}
	bsOutProgram(bsFaultCase{Buf: 65536, Pre: b.Pre, Cut: b.Cut}, w, arr)
	src := &faultSrc{data: w.Bytes(), plan: map[int]string{}, from: -1}
	switch b.Kind {
	case "err-once":
		src.plan[b.K] = "err"
	case "data+err-once":
		src.plan[b.K] = "data+err"
	case "persist":
		src.from = b.K
	}
	ibs, err := bitstream.NewDefaultInputBitStream(src, b.Buf)
	if err != nil {
		return failf("harness", "%v", err), false
	}
	reported := false
	var pre, tail uint64
	got := make([]byte, len(arr))
	step := func(f func()) {
		defer func() {
			if r := recover(); r != nil {
				reported = true
			}
		}()
		f()
	}
	if b.Pre > 0 {
		step(func() { pre = ibs.ReadBits(b.Pre) })
	}
	if !reported {
		step(func() { ibs.ReadArray(got, uint(8*len(arr))-b.Cut) })
	}
	if !reported {
		step(func() { tail = ibs.ReadBits(13) })
	}
	if src.faults == 0 {
		return nil, false
	}
	if reported {
		return nil, true
	}
	// nothing was reported: then every bit delivered must be right
	okArr := true
	full := (8*len(arr) - int(b.Cut)) / 8
	if !bytes.Equal(got[:full], arr[:full]) {
		okArr = false
	}
	if (b.Pre > 0 && pre != 0x5555555555555555&(1<<b.Pre-1)) || !okArr || tail != 0x1ABC {
		return failf("bitstream-source-failure-gives-wrong-bits kind="+b.Kind, "%s: the source failed %d time(s), no read panicked, and the bits delivered are wrong (array ok=%v, tail %#x)", b, src.faults, okArr, tail), true
	}
	return nil, true
})

func countSinkCalls(data []byte, p Params) int {
	sk := &memSink{}
	w, err := kio.NewWriterWithCtx(sk, p.ctx())
	if err != nil {
		return 0
	}
	w.Write(data)
	w.Close()
	return len(sk.calls)
}

func init() {
	register("C08", "fault_enumeration", func(c *Ctx) {
		c.Rule("E2: for every k in the fault-free run's sink/source call sequence: the k-th underlying Write/Read fails x kind {(0,err) once, partial+persistent, persistent, Close fails once, two transient} x jobs 1..4 x caller policy {stop and Close, ignore and continue then Close, Close retried}; end-marker sweep (data lengths that put the buffer flush inside the end-of-stream marker written by Close); 8 blocks of 1 MiB (several sink writes per block through the bulk paths of WriteArray), every sink call failing once / for good; bitstream level: DefaultOutput/InputBitStream (buffers 1024, 4096) running prefix bits + one array transfer (9 sizes, whole and 3 bits short, 6 alignments) + 13 bits + Close over a sink/source whose k-th call fails, every k x 3 kinds - a failure must surface as a panic or a Close error unless every byte arrived, and unreported source failures must not change a delivered bit. E1: every task x every shared-stream operation failing, under every interleaving (jobs 2 and 3), incl. the calling goroutine's own operations. Oracle: no panic escapes; a sink failure is reported by some call; Close returns nil only if the sink holds exactly the complete stream; a source failure never becomes a clean EOF with missing data. Non-trivial = a fault was actually delivered")
		c.Assume("a sink that accepts part of a buffer and then fails is only enumerated together with a persistent failure (retrying a partially accepted buffer is outside what io.Writer lets the library know)")
		// ---- E1 part ----
		specs := faultScenarios(c, true)
		for i := range specs {
			specs[i].Oracles = c08Oracles
			specs[i].MaxSecs = pick(c, 90, 900)
		}
		results := e1RunAll(c, specs, 16)
		e1Summary(c, results)
		// ---- E2 part ----
		const MB = 1 << 20
		famWF.Each(c, 0, func(emit func(wfCase)) {
			for _, jobs := range []uint{1, 2, 3, 4} {
				for _, cfg := range []struct {
					b   uint
					len int
				}{{256 * 1024, MB + 12345}, {64 * 1024, 600000}} {
					p := Params{"NONE", "NONE", cfg.b, jobs, 32, -1, false, false}
					data := shape("random", cfg.len)
					ncalls := countSinkCalls(data, p)
					c.Extra(fmt.Sprintf("sink_calls_fault_free_b%d_j%d", cfg.b, jobs), ncalls)
					for _, ws := range []int{cfg.len, 100000} {
						for _, pol := range []string{"stop", "continue", "close-twice"} {
							for k := 0; k < ncalls; k++ {
								for _, kind := range []string{"err-once", "partial-persist", "persist"} {
									emit(wfCase{P: p, Len: cfg.len, Kind: kind, K: k, Policy: pol, Parts: ws})
								}
								for k2 := k + 1; k2 < ncalls+1; k2++ {
									emit(wfCase{P: p, Len: cfg.len, Kind: "two-transient", K: k, K2: k2, Policy: pol, Parts: ws})
								}
							}
							emit(wfCase{P: p, Len: cfg.len, Kind: "close-once", Policy: pol, Parts: ws})
							emit(wfCase{P: p, Len: cfg.len, Kind: "close-persist", Policy: pol, Parts: ws})
						}
					}
				}
			}
			// blocks whose compressed size is several times the 256 KiB bitstream buffer: the bulk
			// paths of WriteArray (aligned and unaligned, depending on where the block starts) issue
			// several sink writes per block; every one of them fails, once or for good
			for _, jobs := range []uint{1, 2, 4} {
				p := Params{"NONE", "NONE", MB, jobs, 0, -1, false, false}
				n := 8*MB + 4321
				ncalls := countSinkCalls(shape("random", n), p)
				c.Extra(fmt.Sprintf("sink_calls_fault_free_b%d_j%d", MB, jobs), ncalls)
				for k := 0; k < ncalls; k++ {
					for _, kind := range []string{"err-once", "persist"} {
						for _, pol := range []string{"stop", "close-twice"} {
							emit(wfCase{P: p, Len: n, Kind: kind, K: k, Policy: pol, Parts: n})
						}
					}
				}
			}
			// end-marker sweep: one block, the stream length crosses the flush threshold of the
			// 256 KiB bitstream buffer byte by byte; every sink call after the first one fails.
			for _, jobs := range []uint{1, 2} {
				for l := 262136 - 64; l <= 262136+16; l++ {
					p := Params{"NONE", "NONE", 512 * 1024, jobs, 0, -1, false, false}
					emit(wfCase{P: p, Len: l, Kind: "persist", K: 0, Policy: "stop", Parts: l})
					emit(wfCase{P: p, Len: l, Kind: "err-once", K: 0, Policy: "close-twice", Parts: l})
				}
			}
		})
		famBSFault.Each(c, 0, func(emit func(bsFaultCase)) {
			for _, buf := range []uint{1024, 4096} {
				for _, pre := range []uint{0, 1, 5, 8, 63, 64} {
					for _, n := range []int{8, 1000, int(buf) - 8, int(buf), int(buf) + 1, 2 * int(buf), 3*int(buf) + 5, 5 * int(buf), 9*int(buf) - 8} {
						for _, cut := range []uint{0, 3} {
							calls := (n+16)/int(buf-8) + 3
							for k := 0; k < calls; k++ {
								for _, kind := range []string{"err-once", "persist", "partial-persist"} {
									emit(bsFaultCase{Dir: "out", Buf: buf, Pre: pre, ArrLen: n, Cut: cut, Kind: kind, K: k})
								}
								for _, kind := range []string{"err-once", "persist", "data+err-once"} {
									emit(bsFaultCase{Dir: "in", Buf: buf, Pre: pre, ArrLen: n, Cut: cut, Kind: kind, K: k})
								}
							}
						}
					}
				}
			}
		})
		famRF.Each(c, 0, func(emit func(rfCase)) {
			for _, dj := range []uint{1, 2, 3, 4} {
				for _, cfg := range []struct {
					b     uint
					len   int
					chunk int
				}{{64 * 1024, 600000, 0}, {64 * 1024, 600000, 65536}, {1024, 9000, 1024}, {1024, 9000, 4096}, {1024, 3000, 13}, {1024, 9000, 1001}} {
					p := Params{"NONE", "NONE", cfg.b, 2, 32, -1, false, false}
					// number of source calls in a fault-free run
					data := shape("random", cfg.len)
					stream, _, _ := compress(data, p)
					fs := &faultSrc{data: stream, plan: map[int]string{}, from: -1, chunk: cfg.chunk}
					rd, _ := kio.NewReaderWithCtx(fs, map[string]any{"jobs": dj})
					drain(rd, 65536, 0)
					ncalls := fs.n
					for _, rb := range []int{65536, 1000} {
						for k := 0; k < ncalls; k++ {
							for _, kind := range []string{"err-once", "data+err-once", "persist"} {
								emit(rfCase{P: p, Len: cfg.len, DecJobs: dj, Kind: kind, K: k, Chunk: cfg.chunk, RB: rb})
							}
							for k2 := k + 1; k2 < ncalls && ncalls <= 40; k2++ {
								emit(rfCase{P: p, Len: cfg.len, DecJobs: dj, Kind: "two-transient", K: k, K2: k2, Chunk: cfg.chunk, RB: rb})
							}
						}
					}
				}
			}
		})
	})
}
