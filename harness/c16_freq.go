package main

// C16 Frequency scaling always yields a valid table.
// Exhaustive grids of histograms (small scope) x every legal power-of-two scale, against the
// oracle stated in the property. Nothing here is sampled: every member of each grid is evaluated.

import (
	"fmt"

	"github.com/flanglet/kanzi-go/v2/entropy"
)

type freqCase struct {
	Kind  string `json:"kind"` // "small" | "raredom" | "equal" | "geo"
	Pos   []int  `json:"pos,omitempty"`
	Cnt   []int  `json:"cnt,omitempty"`
	K     int    `json:"k,omitempty"`   // rare symbols
	M     int    `json:"m,omitempty"`   // dominant symbols
	R     int    `json:"r,omitempty"`   // rare count
	Rho   int    `json:"rho,omitempty"` // dominant count = r*rho
	N     int    `json:"n,omitempty"`   // alphabet size for equal/geo
	Total int    `json:"total,omitempty"`
	LogSc int    `json:"log_scale"`
	// Short: the histogram is passed as slices of exactly N entries (symbols 0..N-1 all present),
	// the way the Huffman encoder calls the function when it re-scales code lengths
	Short bool `json:"short_slices,omitempty"`
}

func (f freqCase) String() string {
	if f.Short {
		return fmt.Sprintf("%s|%v|%v|%d|%d|%d|%d|%d|%d|%d|short", f.Kind, f.Pos, f.Cnt, f.K, f.M, f.R, f.Rho, f.N, f.Total, f.LogSc)
	}
	return fmt.Sprintf("%s|%v|%v|%d|%d|%d|%d|%d|%d|%d", f.Kind, f.Pos, f.Cnt, f.K, f.M, f.R, f.Rho, f.N, f.Total, f.LogSc)
}

func (f freqCase) histogram() [256]int {
	var h [256]int
	switch f.Kind {
	case "small":
		for i, p := range f.Pos {
			h[p] = f.Cnt[i]
		}
	case "raredom":
		// rare symbols first (low values), dominant ones after: the dominant symbols are met
		// last by the scan, as in sorted data; K+M <= 256
		for i := 0; i < f.K; i++ {
			h[i] = f.R
		}
		for i := 0; i < f.M; i++ {
			h[f.K+i] = f.R * f.Rho
		}
	case "raredom-rev":
		for i := 0; i < f.M; i++ {
			h[i] = f.R * f.Rho
		}
		for i := 0; i < f.K; i++ {
			h[f.M+i] = f.R
		}
	case "equal":
		// N symbols spread over the byte range, Total split as evenly as possible (each >= 1)
		for i := 0; i < f.N; i++ {
			h[(i*256)/f.N] = f.Total / f.N
		}
		for i := 0; i < f.Total%f.N; i++ {
			h[(i*256)/f.N]++
		}
	case "geo":
		// geometric: symbol i gets max(1, Total >> (i+1))
		for i := 0; i < f.N; i++ {
			v := f.Total >> uint(i+1)
			if v < 1 {
				v = 1
			}
			h[255-i] = v
		}
	}
	return h
}

var famFreq = NewFamily("C16.normalize", func(fc freqCase) (*Fail, bool) {
	h := fc.histogram()
	scale := 1 << uint(fc.LogSc)
	total, present := 0, 0
	for _, v := range h {
		total += v
		if v != 0 {
			present++
		}
	}
	if present > scale || present == 0 {
		return nil, false // no valid table exists: outside the property
	}
	if fc.Short {
		// compact form: entry i = count of the i-th present symbol; slices of exactly `present` entries
		cf := make([]int, 0, 256)
		for _, v := range h {
			if v != 0 {
				cf = append(cf, v)
			}
		}
		orig := append([]int{}, cf...)
		ca := make([]int, len(cf))
		var n int
		var err error
		if p := func() (p any) {
			defer func() { p = recover() }()
			n, err = entropy.NormalizeFrequencies(cf, ca, total, scale)
			return nil
		}(); p != nil {
			return failf("panic-with-short-slices", "NormalizeFrequencies(freqs[:%d], alphabet[:%d], total=%d, scale=%d) panicked: %v", len(orig), len(orig), total, scale, p), true
		}
		if err != nil {
			return failf("error-returned", "short slices: total=%d scale=%d: %v", total, scale, err), true
		}
		sum := 0
		for i, v := range cf {
			sum += v
			if v <= 0 {
				return failf("present-symbol-lost", "short slices: entry %d had count %d, scaled to %d (scale %d total %d)", i, orig[i], v, scale, total), true
			}
			if i < n && ca[i] != i {
				return failf("alphabet-wrong", "short slices: alphabet[%d]=%d", i, ca[i]), true
			}
		}
		if n != len(cf) {
			return failf("return-count", "short slices: returned alphabet size %d, present symbols %d", n, len(cf)), true
		}
		if sum != scale {
			fp := "sum<scale"
			if sum > scale {
				fp = "sum>scale"
			}
			return failf(fp, "short slices: table sums to %d, scale %d (present %d, total %d)", sum, scale, present, total), true
		}
		return nil, present >= 2
	}
	freqs := make([]int, 256)
	copy(freqs, h[:])
	alphabet := make([]int, 256)
	for i := range alphabet {
		alphabet[i] = -7
	}
	n, err := entropy.NormalizeFrequencies(freqs, alphabet, total, scale)
	if err != nil {
		return failf("error-returned", "NormalizeFrequencies(total=%d, scale=%d) returned error %v for %d present symbols", total, scale, err, present), true
	}
	sum := 0
	k := 0
	for i := 0; i < 256; i++ {
		sum += freqs[i]
		if h[i] != 0 {
			if freqs[i] <= 0 {
				return failf("present-symbol-lost", "symbol %d had count %d, scaled to %d (scale %d total %d)", i, h[i], freqs[i], scale, total), true
			}
			if k >= n || alphabet[k] != i {
				got := -1
				if k < 256 {
					got = alphabet[k]
				}
				return failf("alphabet-wrong", "alphabet[%d]=%d expected %d (returned size %d, present %d)", k, got, i, n, present), true
			}
			k++
		} else if freqs[i] != 0 {
			return failf("absent-symbol-nonzero", "symbol %d absent but scaled frequency %d", i, freqs[i]), true
		}
	}
	if n != present {
		return failf("return-count", "returned alphabet size %d, present symbols %d", n, present), true
	}
	if sum != scale {
		fp := "sum<scale"
		if sum > scale {
			fp = "sum>scale"
		}
		return failf(fp, "table sums to %d, scale %d (present %d, total %d)", sum, scale, present, total), true
	}
	return nil, present >= 2 && total != scale
})

func init() {
	register("C16", "exploration", func(c *Ctx) {
		c.Rule("exhaustive grids: (a) every histogram over 2..4 present symbols with counts 1..Cmax at two symbol placements; (b) k rare symbols of count r + m dominant symbols of count r*rho for every k in 0..255, m in 1..16, both scan orders; (c) 'all equal' and geometric families for every alphabet size 1..256 x 14 totals (up to 2^31-1) + total == scale, each also passed as slices of exactly N entries (the form the Huffman encoder uses); each x every scale 2^8..2^16. A case is non-trivial when >=2 symbols are present, a table exists (present <= scale) and the shortcut total==scale is not taken; distinct = distinct generator parameters")
		cmax := pick(c, 10, 14)
		famFreq.Each(c, 0, func(emit func(freqCase)) {
			placements := [][]int{{0, 1, 2, 255}, {7, 100, 200, 254}}
			for ls := 8; ls <= 16; ls++ {
				for _, pl := range placements {
					for n := 2; n <= 4; n++ {
						cnt := make([]int, n)
						for i := range cnt {
							cnt[i] = 1
						}
						for {
							emit(freqCase{Kind: "small", Pos: append([]int{}, pl[:n]...), Cnt: append([]int{}, cnt...), LogSc: ls})
							i := 0
							for i < n {
								cnt[i]++
								if cnt[i] <= cmax {
									break
								}
								cnt[i] = 1
								i++
							}
							if i == n {
								break
							}
						}
					}
				}
				for _, kind := range []string{"raredom", "raredom-rev"} {
					for k := 0; k <= 255; k++ {
						for m := 1; m <= 16 && k+m <= 256; m++ {
							for _, r := range []int{1, 2, 3, 5} {
								for _, rho := range []int{2, 3, 7, 20, 100, 1000, 100000} {
									emit(freqCase{Kind: kind, K: k, M: m, R: r, Rho: rho, LogSc: ls})
								}
							}
						}
					}
				}
				for n := 1; n <= 256; n++ {
					for _, tot := range []int{n, n + 1, 2*n + 1, 3 * n, 1000, 4096, 16384, 65536, 100000, 1 << 20, 1<<24 + 3, 1 << 27, 1 << 30, 1<<31 - 1} {
						if tot < n {
							continue
						}
						emit(freqCase{Kind: "equal", N: n, Total: tot, LogSc: ls})
						emit(freqCase{Kind: "geo", N: n, Total: tot, LogSc: ls})
						emit(freqCase{Kind: "equal", N: n, Total: tot, LogSc: ls, Short: true})
						emit(freqCase{Kind: "geo", N: n, Total: tot, LogSc: ls, Short: true})
						if tot != 1<<uint(ls) && n <= 1<<uint(ls) {
							// total == scale exactly (the function's shortcut)
							emit(freqCase{Kind: "equal", N: n, Total: 1 << uint(ls), LogSc: ls, Short: true})
							emit(freqCase{Kind: "equal", N: n, Total: 1 << uint(ls), LogSc: ls})
						}
					}
				}
			}
		})
	})
}
