package main

// Deterministic data catalogue. Pseudo-random generators are used only as catalogue
// definitions: a (shape, length) pair always denotes the same byte string.

import (
	"encoding/base64"
	"encoding/binary"
	"fmt"
	"strings"
)

type xorshift struct{ s uint64 }

func newRng(seed uint64) *xorshift { return &xorshift{s: seed*0x9E3779B97F4A7C15 + 0x1234567} }
func (r *xorshift) next() uint64 {
	r.s ^= r.s << 13
	r.s ^= r.s >> 7
	r.s ^= r.s << 17
	return r.s
}
func (r *xorshift) intn(n int) int { return int(r.next() % uint64(n)) }

var englishWords = strings.Fields(`the of and to in a is that for it as was with be by on not he this are or his from at which but have an had they you were their one all we can her has there been if more when will would who so no out up said what about than its into them only could new other some time these two may then do first any my now such like our over man me even most made after also did many before must through back years where much your way well down should because each just those people how too little state good very make world still own see men work long get here between both life being under never day same another know while last might us great old year off come since against go came right used take three`)

func genText(n int, seed uint64, nl string) []byte {
	r := newRng(seed)
	var sb strings.Builder
	col := 0
	for sb.Len() < n {
		w := englishWords[r.intn(len(englishWords))]
		if r.intn(11) == 0 {
			w = strings.ToUpper(w[:1]) + w[1:]
		}
		sb.WriteString(w)
		col += len(w)
		switch {
		case col > 60:
			sb.WriteString("." + nl)
			col = 0
		case r.intn(9) == 0:
			sb.WriteString(", ")
		default:
			sb.WriteByte(' ')
		}
	}
	return []byte(sb.String())[:n]
}

func genXML(n int, seed uint64) []byte {
	r := newRng(seed)
	var sb strings.Builder
	sb.WriteString("<?xml version=\"1.0\" encoding=\"UTF-8\"?>\n<root>\n")
	for sb.Len() < n {
		tag := englishWords[r.intn(40)]
		fmt.Fprintf(&sb, "  <%s id=\"%d\" name=\"%s\">%s &amp; %s</%s>\n", tag, r.intn(100000), englishWords[r.intn(len(englishWords))], englishWords[r.intn(len(englishWords))], englishWords[r.intn(len(englishWords))], tag)
	}
	return []byte(sb.String())[:n]
}

// genUTF8: code points from `nsyms` distinct runes starting at base, bytes per rune by base.
func genUTF8(n int, seed uint64, base rune, nsyms int) []byte {
	r := newRng(seed)
	var sb strings.Builder
	for sb.Len() < n+8 {
		// zipf-ish choice among nsyms
		k := r.intn(nsyms)
		if r.intn(3) != 0 {
			k = r.intn(1 + nsyms/8)
		}
		sb.WriteRune(base + rune(k))
		if r.intn(6) == 0 {
			sb.WriteByte(' ')
		}
	}
	b := []byte(sb.String())
	// cut at a rune boundary <= n, pad with spaces
	cut := n
	for cut > 0 && cut < len(b) && b[cut]&0xC0 == 0x80 {
		cut--
	}
	out := append([]byte{}, b[:cut]...)
	for len(out) < n {
		out = append(out, ' ')
	}
	return out
}

func genDNA(n int, seed uint64, mixed bool) []byte {
	r := newRng(seed)
	out := make([]byte, n)
	for i := range out {
		out[i] = "ACGT"[r.intn(4)]
		if mixed {
			switch {
			case i%61 == 60:
				out[i] = '\n'
			case r.intn(200) == 0:
				out[i] = 'N'
			case r.intn(150) == 0:
				out[i] = "acgt"[r.intn(4)]
			}
		}
	}
	return out
}

func genRandom(n int, seed uint64) []byte {
	r := newRng(seed)
	out := make([]byte, n+8)
	for i := 0; i < n; i += 8 {
		binary.LittleEndian.PutUint64(out[i:], r.next())
	}
	return out[:n]
}

func genSkewed(n int, seed uint64, shift uint) []byte {
	// geometric distribution over byte values
	r := newRng(seed)
	out := make([]byte, n)
	for i := range out {
		v := 0
		for v < 255 && r.next()&((1<<shift)-1) != 0 {
			v++
		}
		out[i] = byte(v)
	}
	return out
}

func genRuns(n int, seed uint64) []byte {
	r := newRng(seed)
	out := make([]byte, 0, n)
	lens := []int{1, 2, 3, 4, 5, 31, 223, 224, 225, 226, 255, 256, 257, 1000, 224 + 31*256 - 1, 224 + 31*256, 224 + 31*256 + 1}
	for len(out) < n {
		b := byte(r.intn(7) * 37)
		l := lens[r.intn(len(lens))]
		for i := 0; i < l && len(out) < n; i++ {
			out = append(out, b)
		}
	}
	return out
}

func genSparse(n int, seed uint64) []byte {
	r := newRng(seed)
	out := make([]byte, n)
	for i := 0; i < n; {
		z := 1 << uint(r.intn(12))
		z += r.intn(3) - 1
		i += z
		if i < n {
			out[i] = []byte{1, 2, 0xFE, 0xFF, 0x80, 7}[r.intn(6)]
			i++
		}
	}
	return out
}

func genExe(n int, seed uint64, elf bool) []byte {
	r := newRng(seed)
	out := make([]byte, n)
	for i := range out {
		out[i] = byte(r.next())
		switch r.intn(16) {
		case 0:
			out[i] = 0xE8 // call
		case 1:
			out[i] = 0xE9
		case 2:
			out[i] = 0x0F
		case 3, 4, 5:
			out[i] = 0
		case 6:
			out[i] = 0x8B
		case 7:
			out[i] = 0x48
		}
	}
	// after each call/jmp put a small relative displacement
	for i := 0; i+5 < n; i++ {
		if out[i] == 0xE8 || out[i] == 0xE9 {
			out[i+1], out[i+2], out[i+3], out[i+4] = byte(r.next()), byte(r.next()), 0, 0
			if r.intn(2) == 0 {
				out[i+3], out[i+4] = 0xFF, 0xFF
			}
			i += 4
		} else if out[i] == 0x0F && i+6 < n {
			out[i+1] = 0x80 | byte(r.intn(16))
			out[i+4], out[i+5] = 0, 0
			i += 5
		}
	}
	if elf && n >= 64 {
		copy(out, []byte{0x7F, 'E', 'L', 'F', 2, 1, 1, 0})
		out[16], out[17] = 2, 0
		out[18], out[19] = 0x3E, 0 // x86-64
	} else if n >= 256 {
		copy(out, []byte{'M', 'Z', 0x90, 0})
		binary.LittleEndian.PutUint32(out[60:], 128)
		copy(out[128:], []byte{'P', 'E', 0, 0, 0x64, 0x86})
	}
	return out
}

func genWav(n int, seed uint64, bits, channels int) []byte {
	r := newRng(seed)
	out := make([]byte, n)
	hdr := 0
	if n >= 64 {
		copy(out, "RIFF")
		binary.LittleEndian.PutUint32(out[4:], uint32(n-8))
		copy(out[8:], "WAVEfmt ")
		binary.LittleEndian.PutUint32(out[16:], 16)
		binary.LittleEndian.PutUint16(out[20:], 1)
		binary.LittleEndian.PutUint16(out[22:], uint16(channels))
		binary.LittleEndian.PutUint32(out[24:], 44100)
		binary.LittleEndian.PutUint32(out[28:], uint32(44100*channels*bits/8))
		binary.LittleEndian.PutUint16(out[32:], uint16(channels*bits/8))
		binary.LittleEndian.PutUint16(out[34:], uint16(bits))
		copy(out[36:], "data")
		binary.LittleEndian.PutUint32(out[40:], uint32(n-44))
		hdr = 44
	}
	v := make([]int, channels)
	step := bits / 8
	for i := hdr; i+step*channels <= n; i += step * channels {
		for c := 0; c < channels; c++ {
			v[c] += r.intn(41) - 20 + c
			if bits == 8 {
				out[i+c] = byte(128 + v[c]/4)
			} else {
				binary.LittleEndian.PutUint16(out[i+2*c:], uint16(int16(v[c]*13)))
			}
		}
	}
	return out
}

func genBMP(n int, seed uint64) []byte {
	r := newRng(seed)
	out := make([]byte, n)
	hdr := 0
	if n >= 64 {
		copy(out, "BM")
		binary.LittleEndian.PutUint32(out[2:], uint32(n))
		binary.LittleEndian.PutUint32(out[10:], 54)
		binary.LittleEndian.PutUint32(out[14:], 40)
		binary.LittleEndian.PutUint32(out[18:], 64)
		binary.LittleEndian.PutUint32(out[22:], uint32((n-54)/192))
		binary.LittleEndian.PutUint16(out[26:], 1)
		binary.LittleEndian.PutUint16(out[28:], 24)
		hdr = 54
	}
	px := [3]int{100, 120, 140}
	for i := hdr; i < n; i++ {
		c := (i - hdr) % 3
		px[c] += r.intn(7) - 3
		out[i] = byte(px[c])
	}
	return out
}

func genPeriodic(n int, seed uint64, period int) []byte {
	pat := genRandom(period, seed+uint64(period))
	out := make([]byte, n)
	for i := range out {
		out[i] = pat[i%period]
	}
	return out
}

func genNumeric(n int, seed uint64) []byte {
	r := newRng(seed)
	var sb strings.Builder
	for sb.Len() < n {
		fmt.Fprintf(&sb, "%d,%d.%02d\n", r.intn(1000000), r.intn(1000), r.intn(100))
	}
	return []byte(sb.String())[:n]
}

func genRot256(n int) []byte {
	out := make([]byte, n)
	for i := range out {
		out[i] = byte(i + i/256)
	}
	return out
}

// genFib: Fibonacci-weighted histogram (forces deep Huffman trees), symbols interleaved.
func genFib(n int, seed uint64) []byte {
	r := newRng(seed)
	w := []int{1, 1}
	for len(w) < 40 {
		w = append(w, w[len(w)-1]+w[len(w)-2])
	}
	tot := 0
	for _, x := range w {
		tot += x
	}
	out := make([]byte, n)
	for i := range out {
		v := int(r.next() % uint64(tot))
		s := 0
		for k, x := range w {
			s += x
			if v < s {
				out[i] = byte(k * 5)
				break
			}
		}
	}
	return out
}

// genRareDom: k rare symbols (count c each) + m dominant symbols filling the rest; sorted or interleaved.
func genRareDom(n, k, c, m int, interleave bool) []byte {
	out := make([]byte, 0, n)
	for s := 0; s < k; s++ {
		for j := 0; j < c && len(out) < n; j++ {
			out = append(out, byte(s))
		}
	}
	for i := 0; len(out) < n; i++ {
		out = append(out, byte(k+i%m))
	}
	if interleave {
		// deterministic permutation: stride coprime with n
		p := make([]byte, n)
		st := 7919
		for n%st == 0 {
			st += 2
		}
		for i := range out {
			p[(i*st)%n] = out[i]
		}
		// the map i -> i*st mod n is a bijection only if gcd(st,n)=1
		if gcd(st, n) == 1 {
			return p
		}
	}
	return out
}

func gcd(a, b int) int {
	for b != 0 {
		a, b = b, a%b
	}
	return a
}

// genLZBoundary: copies at distances/lengths around the LZ codecs' encoding boundaries.
func genLZBoundary(n int, seed uint64) []byte {
	r := newRng(seed)
	out := genRandom(n, seed)
	dists := []int{1, 2, 3, 4, 7, 8, 16, 255, 256, 65533, 65534, 65535, 65536, 65537, 1<<24 - 3, 1<<24 - 2, 1<<24 - 1}
	lens := []int{3, 4, 5, 6, 7, 9, 15, 16, 17, 63, 64, 65, 96, 97, 254, 255, 256, 270, 65535 + 254 + 3, 65535 + 254 + 4, 65535 + 254 + 5}
	pos := 300
	for pos < n {
		d := dists[r.intn(len(dists))]
		l := lens[r.intn(len(lens))]
		if d > pos {
			d = 1 + r.intn(pos)
		}
		for i := 0; i < l && pos < n; i++ {
			out[pos] = out[pos-d]
			pos++
		}
		pos += 1 + r.intn(40)
	}
	return out
}

var shapeNames = []string{"text", "crlf", "xml", "utf8-2", "utf8-3", "utf8-4", "utf8-wide", "utf8-dense", "dna", "dna-mixed", "base64", "hex", "numeric",
	"elf", "pe", "wav8m", "wav16s", "bmp", "runs", "sparse", "skew1", "skew3", "const", "random", "zipmagic", "period3", "period255", "period65535",
	"rot256", "fib", "raredom", "lzbound", "mixed", "longlit", "allruns", "rarerun", "zipmagic-text", "crlf-records", "sym4", "sym5", "sym16", "sym17", "wav24", "longrep", "gaps", "textwords", "crlf-cut", "dominant", "bmtext"}

// a smaller set for the expensive products
var coreShapes = []string{"text", "utf8-3", "utf8-wide", "utf8-dense", "dna", "elf", "wav16s", "runs", "sparse", "skew3", "const", "random", "rot256", "lzbound", "period255", "mixed", "longlit", "allruns", "rarerun", "crlf-records", "crlf-cut"}

// genAllRuns: runs of EVERY byte value (descending from 0xFF, so that the escape symbols of the
// run-length family - 0xFB, 0xFE, 0xFF - come first), with run lengths cycling through the
// thresholds of RLT/ZRLT, separated by short literal stretches; the run of a value never starts the block.
func genAllRuns(n int, seed uint64) []byte {
	r := newRng(seed)
	lens := []int{5, 4, 9, 3, 40, 6, 2, 300, 8, 1, 17}
	out := make([]byte, 0, n)
	out = append(out, 'a', 'b')
	for i := 0; len(out) < n; i++ {
		v := byte(0xFF - i%256)
		l := lens[(i+i/256)%len(lens)]
		for k := 0; k < l && len(out) < n; k++ {
			out = append(out, v)
		}
		for k := r.intn(3); k > 0 && len(out) < n; k-- {
			out = append(out, byte('a'+r.intn(20)))
		}
	}
	return out
}

// genRareRun: all 256 byte values occur, 255 of them often (in runs of 8), one of them exactly once
// as a run of 6 in the middle of the block - so a codec that picks the least frequent byte as its
// escape symbol meets a RUN of its own escape symbol. Needs n >= 2100, else falls back to allruns.
func genRareRun(n int, seed uint64) []byte {
	if n < 2100 {
		return genAllRuns(n, seed)
	}
	rare := byte(0x5C + seed%7)
	out := make([]byte, 0, n)
	placed := false
	for i := 0; len(out) < n; i++ {
		v := byte(i % 256)
		if v == rare {
			continue
		}
		if !placed && len(out) >= n/2 && len(out)+6 <= n {
			for k := 0; k < 6; k++ {
				out = append(out, rare)
			}
			placed = true
		}
		for k := 0; k < 8 && len(out) < n; k++ {
			out = append(out, v)
		}
	}
	return out
}

func shape(name string, n int) []byte {
	if n == 0 {
		return []byte{}
	}
	seed := hash64(name) % 1000003
	switch name {
	case "text":
		return genText(n, seed, "\n")
	case "crlf":
		return genText(n, seed, "\r\n")
	case "xml":
		return genXML(n, seed)
	case "utf8-2":
		return genUTF8(n, seed, 0x400, 60)
	case "utf8-3":
		return genUTF8(n, seed, 0x4E00, 900)
	case "utf8-4":
		return genUTF8(n, seed, 0x1F300, 300)
	case "utf8-wide":
		return genUTF8(n, seed, 0x4E00, 20000)
	case "utf8-dense":
		// valid UTF-8 whose symbol map is almost as large as the text: 85% of the 3-byte
		// characters are distinct code points (UTF codec: large map + 2-byte aliases)
		out := make([]byte, 0, n+4)
		chars := n / 3
		distinct := min(chars*85/100, 30000)
		for i := 0; len(out)+3 <= n; i++ {
			r := rune(0x4E00 + i)
			if i >= distinct {
				r = rune(0x4E00 + (i*7)%max(distinct, 1))
			}
			out = append(out, byte(0xE0|r>>12), byte(0x80|(r>>6)&0x3F), byte(0x80|r&0x3F))
		}
		for len(out) < n {
			out = append(out, ' ')
		}
		return out
	case "dna":
		return genDNA(n, seed, false)
	case "dna-mixed":
		return genDNA(n, seed, true)
	case "base64":
		s := base64.StdEncoding.EncodeToString(genRandom(n, seed))
		return []byte(s)[:n]
	case "hex":
		return []byte(fmt.Sprintf("%x", genRandom(n/2+1, seed)))[:n]
	case "numeric":
		return genNumeric(n, seed)
	case "elf":
		return genExe(n, seed, true)
	case "pe":
		return genExe(n, seed, false)
	case "wav8m":
		return genWav(n, seed, 8, 1)
	case "wav16s":
		return genWav(n, seed, 16, 2)
	case "bmp":
		return genBMP(n, seed)
	case "runs":
		return genRuns(n, seed)
	case "sparse":
		return genSparse(n, seed)
	case "skew1":
		return genSkewed(n, seed, 1)
	case "skew3":
		return genSkewed(n, seed, 3)
	case "const":
		out := make([]byte, n)
		for i := range out {
			out[i] = 0x41
		}
		return out
	case "random":
		return genRandom(n, seed)
	case "zipmagic":
		out := genRandom(n, seed)
		copy(out, []byte{'P', 'K', 3, 4, 20, 0, 0, 0})
		return out
	case "period3":
		return genPeriodic(n, seed, 3)
	case "period255":
		return genPeriodic(n, seed, 255)
	case "period65535":
		return genPeriodic(n, seed, 65535)
	case "rot256":
		return genRot256(n)
	case "fib":
		return genFib(n, seed)
	case "raredom":
		return genRareDom(n, 192, 3, 8, true)
	case "lzbound":
		return genLZBoundary(n, seed)
	case "mixed":
		// segments of 1 KiB of different detected data types, in rotation: consecutive blocks (and
		// the blocks that land in the same task slot of consecutive batches) differ in type
		kinds := []string{"dna", "text", "utf8-3", "random", "elf", "numeric", "base64", "wav16s", "runs"}
		out := make([]byte, 0, n)
		for i := 0; len(out) < n; i++ {
			seg := shape(kinds[(i*5+i/9)%len(kinds)], 1024)
			out = append(out, seg[:min(1024, n-len(out))]...)
		}
		return out
	case "allruns":
		return genAllRuns(n, seed)
	case "rarerun":
		return genRareRun(n, seed)
	case "zipmagic-text":
		// starts with the signature of an already-compressed format, the rest is compressible text
		out := genText(n, seed, "\n")
		copy(out, []byte{'P', 'K', 3, 4, 20, 0, 0, 0})
		return out
	case "bmtext":
		// English text that happens to start with the two-letter signature of a bitmap file
		out := genText(n, seed, "\n")
		copy(out, "BMW ")
		return out
	case "dominant":
		// three quarters of the block are one byte value (0), the rest is random: symbol counts beyond
		// 2^16 / 2^21 / 2^24 for large blocks (varint-coded frequency headers)
		out := genRandom(n, seed)
		for i := range out {
			if i%4 != 3 {
				out[i] = 0
			}
		}
		return out
	case "crlf-cut":
		// the same records, seen through a window that starts on an LF and (for lengths that are
		// multiples of 64) ends on a CR: a block cut inside the line ends at both sides
		return shape("crlf-records", n+64)[64:]
	case "crlf-records":
		// CR+LF text made of fixed-width records (64 bytes incl. CR LF) after a header line that is one
		// byte longer: every CR sits at an offset = 63 (mod 64), so every block boundary at a multiple
		// of 64 falls BETWEEN a CR and its LF (blocks start with a lone LF and end with a lone CR)
		out := make([]byte, 0, n+70)
		words := genText(n+200, seed, " ")
		wi := 0
		line := func(w int) {
			for k := 0; k < w; k++ {
				ch := words[wi%len(words)]
				wi++
				if ch == '\n' || ch == '\r' {
					ch = ' '
				}
				out = append(out, ch)
			}
			out = append(out, '\r', '\n')
		}
		line(63)
		for len(out) < n {
			line(62)
		}
		return out[:n]
	case "sym4", "sym5", "sym16", "sym17":
		// exactly K distinct byte values (PACK's 2-bit / 4-bit modes switch at 4 and 16), skewed
		k := map[string]int{"sym4": 4, "sym5": 5, "sym16": 16, "sym17": 17}[name]
		r := newRng(seed)
		out := make([]byte, n)
		for i := range out {
			v := r.intn(k)
			if r.intn(3) > 0 {
				v = r.intn(1 + k/3)
			}
			out[i] = byte(0x41 + v*3)
		}
		for i := 0; i < k && i < n; i++ {
			out[(i*7919)%n] = byte(0x41 + i*3) // every value occurs
		}
		return out
	case "wav24":
		// 24-bit little-endian mono samples of a slow ramp + noise (stride 3: FSD/MM stride detection)
		r := newRng(seed)
		out := make([]byte, 0, n+3)
		v := 0
		for len(out) < n {
			v += r.intn(2001) - 1000 + 37
			out = append(out, byte(v), byte(v>>8), byte(v>>16))
		}
		return out[:n]
	case "longrep":
		// one symbol repeated far beyond 64K, then all 256 values, then the symbol 255 repeated
		out := make([]byte, 0, n)
		for i := 0; len(out) < n && i < n*6/10; i++ {
			out = append(out, 0x55)
		}
		for i := 0; len(out) < n && i < 512; i++ {
			out = append(out, byte(i))
		}
		for len(out) < n {
			out = append(out, 0xFF)
		}
		return out
	case "gaps":
		// 140 distinct symbols with unused values between them (every other value from 1), skewed
		r := newRng(seed)
		out := make([]byte, n)
		for i := range out {
			v := r.intn(140)
			if r.intn(4) > 0 {
				v = r.intn(20)
			}
			out[i] = byte(1 + 2*v%255)
		}
		return out
	case "textwords":
		// words at the limits of the text codec: 1-2 letter words, very long words, digits, upper case,
		// capitalised, bytes >= 0x80 inside words, the block may end inside a word
		r := newRng(seed)
		parts := []string{"a", "I", "of", "to", "THE", "The", "Zebra", "x9", "2024", "3.14159", "caf\xc3\xa9", "na\xefve", "\xff\xfe", "e-mail", "under_score", "don't",
			strings.Repeat("pneumonoultramicroscopic", 3), strings.Repeat("Z", 40), "the", "and", "that", "with"}
		out := make([]byte, 0, n+80)
		for len(out) < n {
			out = append(out, parts[r.intn(len(parts))]...)
			out = append(out, " \n\t,."[r.intn(5)])
		}
		return out[:n]
	case "longlit":
		// a compressible block that contains one very long match-free stretch (literal run lengths
		// beyond the 1- and 3-byte length encodings of the LZ family: >= 65797 bytes)
		if n < 1024 {
			return genText(n, seed, "\n")
		}
		lit := min(n*2/5, 90000)
		if n >= 140000 {
			lit = 70000 + (n % 1000)
		}
		head := (n - lit) / 3
		out := append([]byte{}, genText(head, seed, "\n")...)
		out = append(out, genRandom(lit, seed+1)...)
		for len(out) < n {
			out = append(out, 0)
		}
		return out
	}
	panic("unknown shape " + name)
}
