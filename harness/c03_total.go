package main

// C03 Decoder is total: arbitrary input never crashes or hangs the process.
// Mutation catalogue over valid seed streams, every member decoded in a WORKER PROCESS so that a
// panic in a helper goroutine (which no recover can catch), a fatal error or an endless loop is
// observed as the death / silence of the worker and attributed to the exact case.

import (
	"bufio"
	"encoding/json"
	"fmt"
	"os"
	"os/exec"
	"runtime"
	"sort"
	"strings"
	"sync"
	"syscall"
	"time"

	kio "github.com/flanglet/kanzi-go/v2/io"
)

type c03Group struct {
	P     Params `json:"params"`
	Shape string `json:"shape"`
	Len   int    `json:"len"`
	Jobs  uint   `json:"dec_jobs"`
	Class string `json:"class"` // header | blockhdr | modebyte | payload-head | payload-stride | truncate
	Arg   int    `json:"arg,omitempty"`
	Only  int    `json:"only"` // -1 = all mutations, else only this index (replay)
	Shard  int   `json:"shard,omitempty"`
	Shards int   `json:"shards,omitempty"` // > 1: this group handles mutation indexes i with i % Shards == Shard
}

func (g c03Group) String() string {
	return fmt.Sprintf("%s|%s|%d|%d|%s|%d|%d/%d", g.P, g.Shape, g.Len, g.Jobs, g.Class, g.Arg, g.Shard, g.Shards)
}

type c03Mut struct {
	desc string
	data []byte
}

// c03Mutations enumerates the mutated streams of a group deterministically (lazily).
func c03Mutations(g c03Group, yield func(i int, desc string, mk func() []byte) bool) error {
	data := shape(g.Shape, g.Len)
	stream, where, err := compress(data, g.P)
	if err != nil {
		return fmt.Errorf("seed compression failed at %s: %v", where, err)
	}
	ks, err := parseKanzi(stream)
	if err != nil {
		return err
	}
	i := 0
	emit := func(desc string, mk func() []byte) bool {
		ok := true
		if (g.Only < 0 || g.Only == i) && (g.Shards <= 1 || i%g.Shards == g.Shard || g.Only == i) {
			ok = yield(i, desc, mk)
		}
		i++
		return ok
	}
	clone := func() []byte { return append([]byte{}, stream...) }
	switch g.Class {
	case "header":
		type fv struct {
			name string
			vals []uint64
		}
		bs := ks.Hdr.BlockSz16
		fields := []fv{
			{"version", []uint64{0, 1, 2, 3, 4, 5, 7, 8, 15}},
			{"cksize", []uint64{0, 1, 2, 3}},
			{"entropy", nil}, {"transform", nil},
			{"blocksize", []uint64{0, 1, 63, 64, bs - 1, bs + 1, 4096, 1 << 22 /* 64 MiB */, 1<<26 - 1, 1 << 26 /* 1 GiB */, 1<<26 + 1, 1<<28 - 1}},
			{"szmask", []uint64{0, 1, 2, 3}},
			{"padding", []uint64{1, 0x7FFF}},
		}
		for v := uint64(0); v < 32; v++ {
			fields[2].vals = append(fields[2].vals, v)
		}
		// every 6-bit transform slot x every value 0..63
		for slot := 0; slot < 8; slot++ {
			for v := uint64(0); v < 64; v++ {
				sh := uint(42 - 6*slot)
				fields[3].vals = append(fields[3].vals, ks.Hdr.Transform&^(uint64(63)<<sh)|v<<sh)
			}
		}
		for _, f := range fields {
			for _, v := range f.vals {
				f, v := f, v
				for _, fix := range []bool{true, false} {
					fix := fix
					if !emit(fmt.Sprintf("header field %s=%d checksum-fixed=%v", f.name, v, fix), func() []byte {
						h2 := *ks
						h2.Hdr = ks.Hdr
						switch f.name {
						case "version":
							h2.Hdr.Version = v
						case "cksize":
							h2.Hdr.CkSize = v
						case "entropy":
							h2.Hdr.Entropy = v
						case "transform":
							h2.Hdr.Transform = v
						case "blocksize":
							h2.Hdr.BlockSz16 = v
						case "szmask":
							h2.Hdr.SzMask = v
							h2.Hdr.Size = 0xFFFFFFFFFFFF
						case "padding":
							h2.Hdr.Padding = v
						}
						return h2.serialize(fix)
					}) {
						return nil
					}
				}
			}
		}
		// size hint values
		for _, sz := range []uint64{0, 1, 1023, 1 << 20, 1<<32 - 1, 1<<48 - 1} {
			for m := uint64(1); m <= 3; m++ {
				sz, m := sz, m
				if !emit(fmt.Sprintf("header size hint mask=%d value=%d", m, sz), func() []byte {
					h2 := *ks
					h2.Hdr.SzMask, h2.Hdr.Size = m, sz&(1<<(16*m)-1)
					return h2.serialize(true)
				}) {
					return nil
				}
			}
		}
	case "blockhdr":
		for bi := range ks.Blocks {
			b := ks.Blocks[bi]
			tl := uint64(b.PayloadBits)
			lens := []uint64{0, 1, 7, 8, tl - 8, tl - 1, tl + 1, tl + 8, tl * 2, 1 << 16, 1 << 20, 1<<24 + 5, 1 << 30, 1<<34 - 1, 1 << 34, 1<<34 + 1}
			for lw := 3; lw <= 34; lw++ {
				for _, l := range lens {
					if l>>uint(lw) != 0 {
						continue
					}
					if l > 1<<27 && g.Jobs > 2 {
						continue // keep legitimate allocations bounded (<= 16 MiB x jobs beyond this)
					}
					bi, lw, l := bi, lw, l
					if !emit(fmt.Sprintf("block %d header lw=%d length=%d bits (true %d)", bi+1, lw, l, tl), func() []byte {
						w := &bitWriter{}
						w.copyBits(stream, 0, b.StartBit)
						w.bits(uint64(lw-3), 5)
						w.bits(l, lw)
						w.copyBits(stream, b.PayloadBit, len(stream)*8-b.PayloadBit)
						return w.b
					}) {
						return nil
					}
				}
			}
		}
	case "modebyte":
		for bi := range ks.Blocks {
			b := ks.Blocks[bi]
			for v := 0; v < 256; v++ {
				bi, v := bi, v
				if !emit(fmt.Sprintf("block %d mode byte=%#x", bi+1, v), func() []byte {
					o := clone()
					putBits(o, b.PayloadBit, 8, uint64(v))
					return o
				}) {
					return nil
				}
				if b.PayloadBits >= 24 {
					if !emit(fmt.Sprintf("block %d second byte=%#x (skip flags / length)", bi+1, v), func() []byte {
						o := clone()
						putBits(o, b.PayloadBit+8, 8, uint64(v))
						return o
					}) {
						return nil
					}
				}
			}
			// pre-entropy length boundary values (1..4 bytes after the mode byte)
			for _, v := range []uint64{0, 1, 255, 256, 65535, 65536, 1<<24 - 1, 1 << 24, 1<<30 - 1, 1 << 30, 1<<32 - 1} {
				for m := 0; m < 4; m++ {
					bi, v, m := bi, v, m
					if v>>uint(8*(m+1)) != 0 || b.PayloadBits < 8+8*(m+1) {
						continue
					}
					if !emit(fmt.Sprintf("block %d length-size=%d pre-entropy length=%d", bi+1, m+1, v), func() []byte {
						o := clone()
						putBits(o, b.PayloadBit, 8, uint64(b.Mode&^0x60)|uint64(m)<<5)
						putBits(o, b.PayloadBit+8, 8*(m+1), v)
						return o
					}) {
						return nil
					}
				}
			}
		}
	case "payload-head":
		// every byte of the first Arg bytes after the block's mode/length/checksum fields x 8 values
		for bi := range ks.Blocks {
			b := ks.Blocks[bi]
			for k := 0; k < g.Arg && b.DataBit+8*k+8 <= b.PayloadBit+b.PayloadBits; k++ {
				old := getBits(stream, b.DataBit+8*k, 8)
				for _, v := range []uint64{0x00, 0xFF, 0x80, 0x7F, 0x01, old + 1&0xFF, old ^ 0x40, old>>1 | 0x10} {
					if v == old {
						continue
					}
					bi, k, v := bi, k, v
					if !emit(fmt.Sprintf("block %d codec-header byte %d: %#x -> %#x", bi+1, k, old, v), func() []byte {
						o := clone()
						putBits(o, b.DataBit+8*k, 8, v)
						return o
					}) {
						return nil
					}
				}
			}
		}
	case "payload-allbytes":
		// EVERY byte of the codec data of every block of a small seed x {0x00, 0xFF, 0x01, 0x80}:
		// reaches fields that live anywhere in the block (LZ match distances and lengths, ROLZ
		// literal counts, RLT/ZRLT run lengths, dictionary indexes, chunk tables), in particular
		// "distance 0" / "length 0" / "count 255" values that make a decode loop stop progressing
		for bi := range ks.Blocks {
			b := ks.Blocks[bi]
			for k := 0; b.DataBit+8*k+8 <= b.PayloadBit+b.PayloadBits; k++ {
				old := getBits(stream, b.DataBit+8*k, 8)
				for vi, v := range []uint64{0x00, 0xFF, 0x01, 0x80} {
					if v == old || vi >= g.Arg {
						continue
					}
					bi, k, v := bi, k, v
					if !emit(fmt.Sprintf("block %d codec data byte %d: %#x -> %#x", bi+1, k, old, v), func() []byte {
						o := clone()
						putBits(o, b.DataBit+8*k, 8, v)
						return o
					}) {
						return nil
					}
				}
			}
		}
	case "payload-head-words":
		// multi-byte fields: every offset in the first Arg bytes of codec data x width 2,3,4 x both
		// byte orders x values tied to the block geometry (codec headers store lengths/indexes so)
		for bi := range ks.Blocks {
			b := ks.Blocks[bi]
			pre := b.PreLen
			bsz := uint64(g.P.Block)
			for k := 0; k < g.Arg; k++ {
				for _, w := range []int{2, 3, 4} {
					if b.DataBit+8*(k+w) > b.PayloadBit+b.PayloadBits {
						continue
					}
					top := uint64(1)<<uint(8*w) - 1
					for _, v := range []uint64{0, 1, pre - 1, pre, pre + 1, pre + 16, bsz, bsz + 1, top, top >> 1, top>>1 + 1} {
						if v > top {
							continue
						}
						for _, le := range []bool{false, true} {
							bi, k, w, v, le := bi, k, w, v, le
							if !emit(fmt.Sprintf("block %d codec data bytes %d..%d = %d (little-endian=%v)", bi+1, k, k+w-1, v, le), func() []byte {
								o := clone()
								for i := 0; i < w; i++ {
									sh := uint(8 * (w - 1 - i))
									if le {
										sh = uint(8 * i)
									}
									putBits(o, b.DataBit+8*(k+i), 8, v>>sh&0xFF)
								}
								return o
							}) {
								return nil
							}
						}
					}
				}
			}
		}
	case "bwt-index":
		// BWT block header (format 6): mode byte (log2(chunks) in bits 4..2, index size-1 in bits
		// 1..0) followed by chunks x size bytes, each the chunk's primary index minus one.
		for bi := range ks.Blocks {
			b := ks.Blocks[bi]
			mode := getBits(stream, b.DataBit, 8)
			chunks := 1 << (mode >> 2 & 7)
			isz := int(mode&3) + 1
			hdr := chunks*isz + 1
			count := int(b.PreLen) - hdr
			if count <= 0 {
				continue
			}
			top := uint64(1)<<uint(8*isz) - 1
			for ci := 0; ci < chunks; ci++ {
				off := b.DataBit + 8*(1+ci*isz)
				old := getBits(stream, off, 8*isz)
				for _, v := range []uint64{0, 1, old - 1, old + 1, uint64(count) - 2, uint64(count) - 1, uint64(count), uint64(count) + 1, uint64(count+hdr) - 2, uint64(count+hdr) - 1, uint64(count + hdr), top, top >> 1} {
					if v > top || v == old {
						continue
					}
					bi, ci, v := bi, ci, v
					if !emit(fmt.Sprintf("block %d BWT chunk %d stored index %d -> %d (block of %d bytes, header %d)", bi+1, ci, old, v, count, hdr), func() []byte {
						o := clone()
						putBits(o, off, 8*isz, v)
						return o
					}) {
						return nil
					}
				}
			}
		}
	case "forged-tiny":
		// A stream made of the seed's header, ONE forged block and the end marker. The block declares
		// a pre-entropy length P and carries L bytes of codec data whose leading 1/2/4-byte field
		// (where codecs keep their own decoded-size / index / mode fields) takes boundary values.
		// Reaches the "declared size 0 / 1 / tiny" paths that substitutions on valid blocks cannot.
		b0 := ks.Blocks[0]
		orig := func(k int) byte {
			if b0.DataBit+8*k+8 <= b0.PayloadBit+b0.PayloadBits {
				return byte(getBits(stream, b0.DataBit+8*k, 8))
			}
			return byte(k * 37)
		}
		ckBytes := int(g.P.Checksum / 8)
		lens := []int{1, 2, 3, 4, 5, 6, 7, 8, 9, 10, 11, 12, 13, 14, 15, 16, 17, 20, 24, 32, 64}
		fills := []string{"zero", "orig", "ff"}
		if g.Arg > 0 {
			fills = fills[:g.Arg]
		}
		for _, L := range lens {
			pres := []int{L}
			if g.P.Entropy != "NONE" {
				pres = []int{1, 16, 300}
			}
			for _, pre := range pres {
				for _, w := range []int{1, 2, 4} {
					if w > L {
						continue
					}
					top := uint64(1)<<uint(8*w) - 1
					for _, v := range []uint64{0, 1, 2, uint64(L), uint64(L - w), top >> 1, top} {
						if v > top {
							continue
						}
						for _, le := range []bool{false, true} {
							if w == 1 && le {
								continue
							}
							for _, fill := range fills {
								L, pre, w, v, le, fill := L, pre, w, v, le, fill
								if !emit(fmt.Sprintf("forged single block: declared pre-entropy length %d, %d bytes of codec data, leading %d-byte field = %d (little-endian=%v), rest %s", pre, L, w, v, le, fill), func() []byte {
									pay := []byte{0x00, byte(pre)}
									if pre > 255 {
										pay = []byte{0x20, byte(pre >> 8), byte(pre)}
									}
									for i := 0; i < ckBytes; i++ {
										pay = append(pay, byte(0xA5+i))
									}
									for k := 0; k < L; k++ {
										var x byte
										switch {
										case k < w && le:
											x = byte(v >> uint(8*k))
										case k < w:
											x = byte(v >> uint(8*(w-1-k)))
										case fill == "orig":
											x = orig(k)
										case fill == "ff":
											x = 0xFF
										}
										pay = append(pay, x)
									}
									bw := &bitWriter{}
									bw.copyBits(stream, 0, ks.Hdr.Bits)
									bw.bits(16-3, 5)
									bw.bits(uint64(8*len(pay)), 16)
									for _, x := range pay {
										bw.bits(uint64(x), 8)
									}
									bw.bits(0, 8) // end marker
									bw.bits(0, 64)
									return bw.b
								}) {
									return nil
								}
							}
						}
					}
				}
			}
		}
	case "payload-stride":
		for bi := range ks.Blocks {
			b := ks.Blocks[bi]
			for k := 0; k < b.PayloadBits; k += g.Arg {
				bi, k := bi, k
				if !emit(fmt.Sprintf("block %d payload bit %d flipped", bi+1, k), func() []byte {
					o := clone()
					flipBit(o, b.PayloadBit+k)
					return o
				}) {
					return nil
				}
			}
		}
	case "truncate":
		for cut := 0; cut < len(stream); cut += g.Arg {
			cut := cut
			if !emit(fmt.Sprintf("truncated at %d of %d", cut, len(stream)), func() []byte { return clone()[:cut] }) {
				return nil
			}
		}
	case "garbage":
		// arbitrary bytes: header magic followed by patterned / pseudo-random bytes, and pure noise
		for k := 0; k < g.Arg; k++ {
			k := k
			if !emit(fmt.Sprintf("garbage #%d", k), func() []byte {
				n := []int{0, 1, 3, 4, 19, 20, 21, 64, 1000, 5000}[k%10]
				o := genRandom(n, uint64(k))
				if k%3 != 0 && n >= 4 {
					copy(o, stream[:min(n, ks.Hdr.Bits/8+k%7)])
				}
				return o
			}) {
				return nil
			}
		}
	}
	return nil
}

// worker: decodes every mutation of a group, reporting progress on stdout.
func init() {
	workerCmds["c03worker"] = func(args []string) {
		var g c03Group
		if err := json.Unmarshal([]byte(args[0]), &g); err != nil {
			fmt.Println("ERR bad group")
			os.Exit(3)
		}
		start := 0
		fmt.Sscan(args[1], &start)
		// address-space limit so that a runaway allocation is a clean fatal error of the worker
		lim := syscall.Rlimit{Cur: 40 << 30, Max: 40 << 30}
		syscall.Setrlimit(syscall.RLIMIT_AS, &lim)
		out := bufio.NewWriter(os.Stdout)
		base := runtime.NumGoroutine()
		n, nontrivial := 0, 0
		err := c03Mutations(g, func(i int, desc string, mk func() []byte) bool {
			if i < start {
				return true
			}
			fmt.Fprintf(out, "S %d %s\n", i, desc)
			out.Flush()
			mut := mk()
			var res readResult
			panicked := ""
			func() {
				defer func() {
					if r := recover(); r != nil {
						panicked = fmt.Sprint(r)
					}
				}()
				r, err := kio.NewReaderWithCtx(newSrc(mut), map[string]any{"jobs": g.Jobs})
				if err != nil {
					return
				}
				res = drain(r, 8192, 2)
				r.Close()
			}()
			if panicked != "" {
				fmt.Fprintf(out, "V %d panic-escaped-read %s\n", i, strings.ReplaceAll(panicked, "\n", " "))
			}
			if res.Err != nil || !res.EOF {
				nontrivial++
			}
			// no goroutine may be left behind (spinning or blocked)
			for w := 0; runtime.NumGoroutine() > base && w < 4000; w++ {
				time.Sleep(5 * time.Millisecond)
			}
			if ng := runtime.NumGoroutine(); ng > base {
				fmt.Fprintf(out, "V %d goroutine-leak %d goroutines still alive 20s after the reader was closed\n", i, ng-base)
				base = ng
			}
			n++
			return true
		})
		if err != nil {
			fmt.Fprintf(out, "ERR %v\n", err)
		}
		fmt.Fprintf(out, "END %d %d\n", n, nontrivial)
		out.Flush()
	}
}

type c03Verdict struct {
	idx  int
	kind string
	msg  string
}

// superviseGroup runs a group to completion in worker processes, restarting after each death.
func superviseGroup(c *Ctx, g c03Group, silence time.Duration) {
	exe, _ := os.Executable()
	gj, _ := json.Marshal(g)
	start := 0
	hangs := 0
	cls := fmt.Sprintf("codec=%s/%s class=%s jobs=%s", g.P.Transform, g.P.Entropy, g.Class, jobsClass(g.Jobs))
	report := func(idx int, kind, msg string) {
		gg := g
		gg.Only = idx
		c.Violate("C03.group", gg, failf(kind+" "+cls, "%s (mutation #%d of group %s)", msg, idx, g))
	}
	for attempts := 0; attempts < 2000; attempts++ {
		cmd := exec.Command(exe, "c03worker", string(gj), fmt.Sprint(start))
		cmd.Env = append(os.Environ(), "GOMAXPROCS=4", "GOTRACEBACK=single")
		stdout, _ := cmd.StdoutPipe()
		var stderr strings.Builder
		cmd.Stderr = &stderr
		if err := cmd.Start(); err != nil {
			c.HarnessError("cannot start worker: " + err.Error())
			return
		}
		lines := make(chan string, 256)
		go func() {
			sc := bufio.NewScanner(stdout)
			sc.Buffer(make([]byte, 1<<20), 1<<20)
			for sc.Scan() {
				lines <- sc.Text()
			}
			close(lines)
		}()
		cur, curDesc := -1, ""
		cpuAtCase := 0.0
		busy := false
		ended := false
		hung := false
	loop:
		for {
			select {
			case l, ok := <-lines:
				if !ok {
					break loop
				}
				switch {
				case strings.HasPrefix(l, "S "):
					fmt.Sscan(l[2:], &cur)
					curDesc = l
					cpuAtCase = procCPUSeconds(cmd.Process.Pid)
				case strings.HasPrefix(l, "V "):
					var idx int
					var kind string
					fmt.Sscan(l[2:], &idx, &kind)
					report(idx, kind, l)
				case strings.HasPrefix(l, "END "):
					var n, nt int
					fmt.Sscan(l[4:], &n, &nt)
					for k := 0; k < n; k++ {
						c.Count(fmt.Sprintf("C03|%s|%d", g, start+k), k < nt)
					}
					ended = true
				case strings.HasPrefix(l, "ERR "):
					c.HarnessError(g.String() + ": " + l)
					ended = true
				}
			case <-time.After(silence):
				hung = true
				// a worker that burned CPU for most of the window was not starved: it is computing
				busy = procCPUSeconds(cmd.Process.Pid)-cpuAtCase >= 0.6*silence.Seconds()
				cmd.Process.Kill()
				break loop
			}
		}
		for range lines {
		}
		werr := cmd.Wait()
		if ended && werr == nil {
			return
		}
		if hung {
			// a silent worker may just be starved (machine under load, large legitimate allocation):
			// the case is run again on its own with three times the allowance before it is believed
			if busy && g.Len <= 100000 && g.Class != "blockhdr" && g.Class != "header" {
				// blocks of at most 64 KiB and no forged sizes: a decode that has been computing for
				// most of a minute of CPU time is not bounded by the declared block size
				report(cur, "hang", fmt.Sprintf("the reader did not return within %v while using the CPU all along (busy loop): %s", silence, curDesc))
				hangs++
				if hangs >= 2 {
					c.Capped("group " + g.String() + " abandoned after 2 hangs")
					return
				}
				for k := start; k <= cur; k++ {
					c.Count(fmt.Sprintf("C03|%s|%d", g, k), true)
				}
				start = cur + 1
				continue
			}
			if !c03ConfirmHang(g, cur, 3*silence) {
				c.AddExtra("slow_cases_that_finished_when_rerun", 1)
				for k := start; k <= cur; k++ {
					c.Count(fmt.Sprintf("C03|%s|%d", g, k), true)
				}
				start = cur + 1
				continue
			}
			report(cur, "hang", fmt.Sprintf("the reader did not return within %v, and again not within %v when the case was run on its own: %s", silence, 3*silence, curDesc))
			hangs++
			if hangs >= 2 {
				c.Capped("group " + g.String() + " abandoned after 2 hangs")
				return
			}
		} else {
			tail := stderr.String()
			first := ""
			for _, ln := range strings.Split(tail, "\n") {
				if strings.HasPrefix(ln, "panic:") || strings.HasPrefix(ln, "fatal error:") {
					first = ln
					break
				}
			}
			site := ""
			for _, ln := range strings.Split(tail, "\n") {
				if strings.HasPrefix(ln, "github.com/flanglet/kanzi-go/v2/") && !strings.Contains(ln, "zverif") {
					site = strings.TrimPrefix(ln, "github.com/flanglet/kanzi-go/v2/")
					if k := strings.LastIndex(site, "("); k > 0 {
						site = site[:k]
					}
					break
				}
			}
			report(cur, "process-died@"+site, fmt.Sprintf("the process died (%v) while decoding: %s | %s", werr, curDesc, trunc(first, 300)))
		}
		if cur < 0 {
			c.HarnessError(g.String() + ": worker died before its first case: " + trunc(stderr.String(), 500))
			return
		}
		// count the cases completed by the dead worker, then continue after the fatal case
		for k := start; k <= cur; k++ {
			c.Count(fmt.Sprintf("C03|%s|%d", g, k), true)
		}
		start = cur + 1
		if len(c.viol) > 40 {
			c.Capped("stopped group " + g.String() + " after many violations")
			return
		}
	}
}

// procCPUSeconds returns user+system CPU time consumed so far by a process (0 if unknown).
func procCPUSeconds(pid int) float64 {
	b, err := os.ReadFile(fmt.Sprintf("/proc/%d/stat", pid))
	if err != nil {
		return 0
	}
	s := string(b)
	if i := strings.LastIndex(s, ")"); i >= 0 {
		f := strings.Fields(s[i+1:])
		if len(f) > 13 {
			var ut, st float64
			fmt.Sscan(f[11], &ut)
			fmt.Sscan(f[12], &st)
			return (ut + st) / 100
		}
	}
	return 0
}

// c03ConfirmHang re-runs one mutation in a fresh worker; true = it is silent again for `allow`.
func c03ConfirmHang(g c03Group, idx int, allow time.Duration) bool {
	exe, _ := os.Executable()
	g.Only = idx
	gj, _ := json.Marshal(g)
	cmd := exec.Command(exe, "c03worker", string(gj), "0")
	cmd.Env = append(os.Environ(), "GOMAXPROCS=4", "GOTRACEBACK=single")
	if err := cmd.Start(); err != nil {
		return true
	}
	done := make(chan struct{})
	go func() { cmd.Wait(); close(done) }()
	select {
	case <-done:
		return false // finished (or died: a death is reported by the normal path of a later run)
	case <-time.After(allow):
		cmd.Process.Kill()
		<-done
		return true
	}
}

var famC03 = NewFamily("C03.group", func(g c03Group) (*Fail, bool) {
	// replay: run the single mutation in a worker
	c := newCtx("C03", "quick", "fault_enumeration")
	superviseGroup(c, g, 120*time.Second)
	for _, v := range c.viol {
		return &v.Fail, true
	}
	return nil, true
})

func init() {
	register("C03", "fault_enumeration", func(c *Ctx) {
		c.Rule("seed streams = every transform x {NONE,HUFFMAN} and every entropy codec (B=1024, 4 blocks) + larger blocks + a 4 MiB+ BWT block; mutation classes, each enumerated completely: every header field x boundary values (all 32 entropy ids, every transform slot x 0..63, versions, checksum size, block sizes incl. 1 GiB, size hints) with the header checksum recomputed and not; per block every length width 3..34 x boundary lengths; all 256 mode bytes and all 256 second bytes; pre-entropy length boundaries; every byte of the first 32-48 bytes of codec data x 8 substitutions; every 2/3/4-byte field in the first 8-24 bytes x both byte orders x values tied to the block geometry; every BWT chunk primary index x boundary values around the block length (> 4 MiB block); every byte of the codec data of small blocks x {0x00,0xFF,0x01,0x80}; forged single-block streams (seed header + one block of 1..64 bytes of codec data whose leading 1/2/4-byte field takes boundary values, declared length matching, with and without block checksum); bit flips on a stride; truncations on a stride; garbage. Reader jobs {1,2,8}. Each case runs in a worker process: oracle = the worker survives (no panic/fatal error, also from helper goroutines), answers within the silence watchdog (60 s for blocks <= 64 KiB, else 120 s; a silent case is re-run on its own with three times the allowance before it is reported as a hang), no panic escapes Read, no goroutine is left alive after Close. Non-trivial = the mutation changed the outcome (error or no clean EOF)")
		c.Assume("forged sizes are kept where legitimate allocation stays below the worker's 40 GiB address-space limit")
		var groups []c03Group
		add := func(g c03Group) { g.Only = -1; groups = append(groups, g) }
		type cd struct{ t, e string }
		var codecs []cd
		for _, t := range allTransforms {
			codecs = append(codecs, cd{t, "NONE"})
			if c.Thorough() || t == "BWT" || t == "LZ" || t == "ROLZ" || t == "TEXT" {
				codecs = append(codecs, cd{t, "HUFFMAN"})
			}
		}
		for _, e := range allEntropies[1:] {
			codecs = append(codecs, cd{"NONE", e})
		}
		for _, k := range codecs {
			sh := "text"
			switch k.t {
			case "DNA", "PACK":
				sh = "dna"
			case "EXE":
				sh = "elf"
			case "MM":
				sh = "wav16s"
			case "UTF":
				sh = "utf8-3"
			}
			p := Params{k.t, k.e, 4096, 2, 32, -1, false, false}
			for _, j := range pick(c, []uint{2}, []uint{1, 2, 8}) {
				add(c03Group{P: p, Shape: sh, Len: 3*4096 + 500, Jobs: j, Class: "payload-head", Arg: pick(c, 32, 48)})
				add(c03Group{P: p, Shape: sh, Len: 3*4096 + 500, Jobs: j, Class: "payload-stride", Arg: pick(c, 127, 13)})
			}
			add(c03Group{P: p, Shape: sh, Len: 4096 + 500, Jobs: 2, Class: "payload-head-words", Arg: pick(c, 8, 24)})
			// the same without a block checksum (garbage that decodes "successfully" is then not
			// stopped by the checksum comparison and reaches the result gathering of the caller)
			p0 := Params{k.t, k.e, 4096, 2, 0, -1, false, false}
			add(c03Group{P: p0, Shape: sh, Len: 4096 + 500, Jobs: 2, Class: "payload-head-words", Arg: pick(c, 8, 24)})
			for _, j := range pick(c, []uint{2}, []uint{1, 2}) {
				add(c03Group{P: p0, Shape: sh, Len: 4096 + 500, Jobs: j, Class: "forged-tiny", Arg: pick(c, 2, 3)})
			}
			if c.Thorough() {
				add(c03Group{P: p, Shape: sh, Len: 4096 + 500, Jobs: 2, Class: "forged-tiny", Arg: 3})
			}
			// small seeds (a 1024-byte and a 300-byte block), every byte of the codec data
			ps := Params{k.t, k.e, 1024, 2, 0, -1, false, false}
			add(c03Group{P: ps, Shape: sh, Len: 1024 + 300, Jobs: pick(c, uint(1), uint(2)), Class: "payload-allbytes", Arg: pick(c, 2, 4)})
			if c.Thorough() {
				ps.Checksum = 32
				add(c03Group{P: ps, Shape: sh, Len: 1024 + 300, Jobs: 1, Class: "payload-allbytes", Arg: 4})
			}
			if c.Thorough() || (k.t == "NONE" && k.e == "NONE") || (k.t == "LZ" && k.e == "HUFFMAN") || (k.t == "BWT" && k.e == "NONE") || (k.t == "TEXT" && k.e == "NONE") || (k.t == "NONE" && k.e == "ANS0") {
				add(c03Group{P: p, Shape: sh, Len: 4096 + 500, Jobs: 1, Class: "modebyte"})
			}
		}
		for _, j := range []uint{1, 2, 8} {
			p := Params{"LZ", "HUFFMAN", 1024, 2, 32, 5000, false, false}
			add(c03Group{P: p, Shape: "text", Len: 5000, Jobs: j, Class: "header"})
			add(c03Group{P: p, Shape: "text", Len: 5000, Jobs: j, Class: "blockhdr"})
			add(c03Group{P: p, Shape: "text", Len: 5000, Jobs: j, Class: "truncate", Arg: 7})
			add(c03Group{P: p, Shape: "text", Len: 5000, Jobs: j, Class: "garbage", Arg: 300})
		}
		// blocks spanning several internal chunks of the entropy codecs (per-chunk table headers
		// at 16/32 KiB boundaries): strided flips over the whole payload
		for _, e := range []string{"HUFFMAN", "ANS0", "ANS1", "RANGE", "FPAQ"} {
			p := Params{"NONE", e, 65536, 2, 32, -1, false, false}
			for sh := 0; sh < 2; sh++ {
				add(c03Group{P: p, Shape: "text", Len: 40000, Jobs: 2, Class: "payload-stride", Arg: pick(c, 197, 61), Shard: sh, Shards: 2})
			}
		}
		// larger blocks: 64 KiB for every transform that has size-dependent paths
		for _, t := range []string{"BWT", "BWTS", "LZ", "LZX", "ROLZ", "ROLZX", "TEXT", "RLT"} {
			p := Params{t, "NONE", 65536, 2, 32, -1, false, false}
			add(c03Group{P: p, Shape: "text", Len: 65536 + 100, Jobs: 2, Class: "payload-head", Arg: pick(c, 24, 48)})
		}
		// > 4 MiB BWT block: the inverse runs in parallel helper goroutines
		for _, t := range pick(c, []string{"BWT"}, []string{"BWT", "BWTS", "TEXT+UTF+BWT+RANK+ZRLT"}) {
			p := Params{t, "NONE", 8 << 20, 1, 0, -1, false, false}
			for sh := 0; sh < 8; sh++ {
				if t == "BWT" {
					add(c03Group{P: p, Shape: "text", Len: 4<<20 + 4096, Jobs: pick(c, uint(1), uint(4)), Class: "bwt-index", Shard: sh, Shards: 8})
					if c.Thorough() {
						add(c03Group{P: p, Shape: "text", Len: 8<<20 - 1, Jobs: 2, Class: "bwt-index", Shard: sh, Shards: 8})
					}
				}
				add(c03Group{P: p, Shape: "text", Len: 4<<20 + 4096, Jobs: pick(c, uint(1), uint(4)), Class: "payload-head", Arg: pick(c, 28, 40), Shard: sh, Shards: 8})
			}
		}
		c.Extra("groups", len(groups))
		sort.SliceStable(groups, func(a, b int) bool { return groups[a].Len > groups[b].Len })
		var wg sync.WaitGroup
		sem := make(chan struct{}, 14)
		heavy := make(chan struct{}, 3) // groups whose forged sizes make the reader allocate up to 2 GiB
		for _, g := range groups {
			wg.Add(1)
			sem <- struct{}{}
			go func(g c03Group) {
				defer wg.Done()
				defer func() { <-sem }()
				silence := 120 * time.Second
				if g.Class == "blockhdr" || g.Class == "header" {
					heavy <- struct{}{}
					defer func() { <-heavy }()
				} else if g.Len <= 100000 {
					silence = 60 * time.Second
				}
				superviseGroup(c, g, silence)
			}(g)
		}
		wg.Wait()
		for i, g := range groups {
			if i%17 == 0 {
				c.Sample(g)
			}
		}
	})
}
