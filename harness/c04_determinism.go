package main

// C04 Compressed output is a pure function of data and parameters.
// (i) E1: every interleaving of the encoding tasks (jobs 2,3 unbounded with sleep sets; jobs 4
// bounded) -> sink bytes equal the jobs=1 single-Write reference.
// (ii) free-running grid over job counts x hints x codecs, 3 repetitions.
// (iii) every composition of the input into Write calls over a size alphabet.

import (
	"bytes"
	"fmt"
)

var c04Oracles = []string{"bytes-differ", "error-on-healthy-sink", "deadlock", "livelock", "panic-escaped"}

func encSpec(name string, jobs uint, blocks, tail int, hint int64, mode string, bound int) e1Spec {
	return e1Spec{Name: name, Kind: "enc", Jobs: jobs, Blocks: blocks, Tail: tail, Hint: hint, Transform: "NONE", Entropy: "NONE", Checksum: 32, FaultThread: -1, Mode: mode, Bound: bound}
}

type detCase struct {
	P     Params `json:"params"`
	Shape string `json:"shape"`
	Len   int    `json:"len"`
	Parts []int  `json:"parts,omitempty"`
	Reps  int    `json:"reps"`
}

func (d detCase) String() string { return fmt.Sprintf("%s|%s|%d|%v", d.P, d.Shape, d.Len, d.Parts) }

var famDet = NewFamily("C04.free", func(d detCase) (*Fail, bool) {
	data := shape(d.Shape, d.Len)
	p1 := d.P
	p1.Jobs = 1
	ref, where, err := compress(data, p1)
	if err != nil {
		return failf(fmt.Sprintf("reference-failed %s/%s", d.P.Transform, d.P.Entropy), "jobs=1 reference failed at %s: %v", where, err), true
	}
	for r := 0; r < max(d.Reps, 1); r++ {
		got, where, err := compressParts(data, d.P, d.Parts)
		if err != nil {
			return failf(fmt.Sprintf("error jobs=%s", jobsClass(d.P.Jobs)), "%s failed for %s: %v", where, d, err), true
		}
		if !bytes.Equal(got, ref) {
			kind := "jobs"
			if d.P.Jobs == 1 {
				kind = "write-partition"
			}
			hk := "hint-absent"
			if d.P.Hint >= 0 {
				hk = "hint-given"
			}
			return failf(fmt.Sprintf("stream-differs by=%s %s", kind, hk), "stream for %s differs from the jobs=1 single-Write stream: %d vs %d bytes, first difference at %d (repetition %d)", d, len(got), len(ref), firstDiff(got, ref), r), true
		}
	}
	return nil, d.P.Jobs > 1 || len(d.Parts) > 1
})

func init() {
	register("C04", "model_checking", func(c *Ctx) {
		c.Rule("(i) controlled-scheduler DFS over the real encoding tasks: every interleaving of the scheduling points (atomics, WaitGroup, shared-stream ops, goroutine start/exit) for jobs 2, 3, 4 with no preemption bound (sleep-set reduction), jobs 4 also preemption-bounded plain DFS, and jobs 4-5 (6, 8 in thorough) over up to 4 batches with the state-caching DFS (a global state = atomic values + pending op and call path of every thread + order of the shared-stream operations + API results so far; a state seen before is not expanded again); the sink bytes of every execution are compared with the jobs=1 reference; states = distinct abstract protocol states (atomic values, per-thread pending op, WaitGroup count, stream holder), transitions = distinct (state, step); every execution is a real implementation run. (ii) free-running product jobs x hint x codec x length, 3 repetitions; every single transform and the ZRLT chains x data shapes x short incompressible last block x job counts on both sides of the block count (slot-buffer history); checksum widths; skipBlocks. (iii) all compositions of the input into Write calls over a size alphabet. Non-trivial = more than one task or more than one Write call")
		c.Assume("Go atomics are sequentially consistent, so SC interleavings of the scheduling points are the memory model of the protocol; unsynchronised accesses are the business of the separate -race pass (C18)")
		var specs []e1Spec
		add := func(s e1Spec) {
			s.Oracles = c04Oracles
			s.MaxSecs = pick(c, 60, 600)
			specs = append(specs, s)
		}
		add(encSpec("enc j2 3blk+tail no-hint", 2, 3, 100, -1, "sleep", -1))
		add(encSpec("enc j2 3blk+tail exact-hint", 2, 3, 100, -2, "sleep", -1))
		add(encSpec("enc j2 3blk+tail short-hint", 2, 3, 100, 1000, "sleep", -1))
		add(encSpec("enc j2 4blk no-tail", 2, 4, 0, -1, "sleep", -1))
		add(encSpec("enc j2 1blk+tail (single task batch)", 2, 1, 1, -1, "sleep", -1))
		s := encSpec("enc j2 3blk+tail split-writes", 2, 3, 100, -1, "sleep", -1)
		s.Parts = []int{1, e1B - 1, e1B + 1, 17}
		add(s)
		add(encSpec("enc j3 4blk+tail no-hint", 3, 4, 100, -1, "sleep", -1))
		add(encSpec("enc j3 3blk exact-hint", 3, 3, 0, -2, "sleep", -1))
		add(encSpec("enc j3 2blk+tail hint (fewer blocks than jobs)", 3, 2, 100, -2, "sleep", -1))
		add(encSpec("enc j4 4blk+tail preemption-bounded plain DFS", 4, 4, 100, -1, "bounded", pick(c, 1, 2)))
		add(encSpec("enc j4 4blk+tail unbounded", 4, 4, 100, -1, "sleep", -1))
		add(encSpec("enc j3 6blk+tail (two full batches + tail)", 3, 6, 100, -1, "sleep", -1))
		add(encSpec("enc j2 3blk+tail plain-dfs unbounded (cross-check of sleep sets)", 2, 3, 100, -1, "bounded", -1))
		s = encSpec("enc j2 LZ/HUFFMAN 3blk+tail", 2, 3, 100, -1, "sleep", -1)
		s.Transform, s.Entropy = "LZ", "HUFFMAN"
		add(s)
		// ctx skipBlocks: the raw-copy decision is taken per block, from that block's content only
		for _, j := range []uint{2, 3} {
			s = encSpec(fmt.Sprintf("enc j%d skipBlocks, first block has a compressed-format signature", j), j, int(j), 100, -1, "sleep", -1)
			s.Transform, s.Entropy, s.Skip, s.Magic = "LZ", "HUFFMAN", true, true
			add(s)
		}
		// state-caching exploration (no bound): more tasks and more batches than the sleep-set mode can finish
		add(encSpec("enc j5 5blk+tail state-caching", 5, 5, 100, -1, "cache", -1))
		add(encSpec("enc j4 12blk+tail (4 batches) state-caching", 4, 12, 100, -2, "cache", -1))
		add(encSpec("enc j2 3blk+tail state-caching (cross-check)", 2, 3, 100, -1, "cache", -1))
		if c.Thorough() {
			add(encSpec("enc j6 6blk+tail state-caching", 6, 6, 100, -1, "cache", -1))
			add(encSpec("enc j8 8blk+tail state-caching", 8, 8, 100, -1, "cache", -1))
			add(encSpec("enc j5 5blk+tail unbounded", 5, 5, 100, -1, "sleep", -1))
			add(encSpec("enc j4 8blk+tail state-caching (two full batches + tail)", 4, 8, 100, -1, "cache", -1))
			add(encSpec("enc j3 4blk+tail plain bound3", 3, 4, 100, -1, "bounded", 3))
			s = encSpec("enc j3 BWT/ANS0 4blk+tail", 3, 4, 100, -2, "sleep", -1)
			s.Transform, s.Entropy = "BWT", "ANS0"
			add(s)
		}
		for _, st := range stallScenarios(c) {
			if st.Kind == "enc" {
				add(st)
			}
		}
		results := e1RunAll(c, specs, 16)
		e1Summary(c, results)
		// self check: sleep-set mode and plain DFS must see the same set of outcomes
		var a, b *e1Result
		for _, r := range results {
			if r.Spec.Name == "enc j2 3blk+tail no-hint" {
				a = r
			}
			if r.Spec.Name == "enc j2 3blk+tail plain-dfs unbounded (cross-check of sleep sets)" {
				b = r
			}
		}
		if a != nil && b != nil && a.Capped == "" && b.Capped == "" && len(a.Viols) == 0 && len(b.Viols) == 0 {
			if fmt.Sprint(keysOf(a.Outcomes)) != fmt.Sprint(keysOf(b.Outcomes)) {
				c.HarnessError(fmt.Sprintf("sleep-set exploration and plain DFS disagree on the outcome set: %v vs %v", keysOf(a.Outcomes), keysOf(b.Outcomes)))
			}
			c.Extra("sleep_vs_plain_crosscheck", fmt.Sprintf("same outcome set; %d vs %d executions", a.Execs, b.Execs))
		}

		// (ii) free-running grid
		const B = 1024
		famDet.Each(c, 0, func(emit func(detCase)) {
			codecs := [][2]string{{"NONE", "NONE"}, {"LZ", "HUFFMAN"}, {"BWT", "ANS0"}, {"TEXT+UTF+PACK+MM+LZX", "HUFFMAN"}, {"TEXT+UTF+BWT+RANK+ZRLT", "ANS0"}, {"LZP+TEXT+UTF+BWT+LZP", "CM"}}
			for _, cd := range codecs {
				for _, j := range []uint{2, 3, 4, 5, 6, 7, 8, 16, 63, 64} {
					for _, k := range []int{1, int(j) - 1, int(j), int(j) + 1, 2*int(j) + 1} {
						if k < 1 || (k > 20 && cd[0] != "NONE" && !c.Thorough()) {
							continue
						}
						n := k*B + 37
						for _, h := range []int64{-1, int64(n), int64(n) / 2, int64(n) * 3} {
							for _, sh := range pick(c, []string{"text"}, []string{"text", "random", "utf8-3"}) {
								emit(detCase{P: Params{cd[0], cd[1], B, j, 32, h, false, false}, Shape: sh, Len: n, Reps: 3})
							}
						}
					}
				}
			}
			// every transform alone: the block that lands in a task slot must not be encoded differently
			// because of what the slot's buffers held (or how large they had grown) before; a short,
			// incompressible last block after full blocks, job counts on both sides of the block count
			for _, t := range allTransforms[1:] {
				for _, sh := range []string{"random", "mixed", "text", "allruns"} {
					for _, k := range []int{1, 3} {
						for _, j := range []uint{2, 4} {
							for _, bsz := range []uint{B, 16 * B} {
								n := k*int(bsz) + int(bsz)/3
								emit(detCase{P: Params{t, "NONE", bsz, j, 0, -1, false, false}, Shape: sh, Len: n, Reps: 1})
							}
						}
					}
				}
			}
			for _, ch := range []string{"BWT+RANK+ZRLT", "BWT+SRT+ZRLT", "RLT+ZRLT", "TEXT+ZRLT", "LZP+BWTS+MTFT+ZRLT"} {
				for _, sh := range []string{"random", "mixed"} {
					for _, k := range []int{1, 3} {
						for _, j := range []uint{2, 4} {
							emit(detCase{P: Params{ch, "ANS0", 16 * B, j, 32, -1, false, false}, Shape: sh, Len: k*16*B + 5000, Reps: 1})
						}
					}
				}
			}
			// checksum widths: the block hashers are shared by the tasks of one Writer
			for _, cd := range [][2]string{{"NONE", "NONE"}, {"LZ", "HUFFMAN"}} {
				for _, ck := range []uint{0, 64} {
					for _, j := range []uint{2, 3, 4, 8, 16} {
						for _, nb := range []int{int(j), 2*int(j) + 1} {
							emit(detCase{P: Params{cd[0], cd[1], B, j, ck, -1, false, false}, Shape: "text", Len: nb*B + 37, Reps: 5})
							emit(detCase{P: Params{cd[0], cd[1], 64 * B, j, ck, -1, false, false}, Shape: "text", Len: nb*64*B + 37, Reps: 3})
						}
					}
				}
			}
			// skipBlocks: already-compressed first block followed by compressible ones, and the reverse
			for _, cd := range [][2]string{{"LZ", "HUFFMAN"}, {"TEXT+UTF+BWT+RANK+ZRLT", "ANS0"}} {
				for _, j := range []uint{2, 3, 4, 8} {
					for _, sh := range []string{"zipmagic-text", "mixed", "random"} {
						for _, nb := range []int{2, int(j), 2*int(j) + 1} {
							emit(detCase{P: Params{cd[0], cd[1], B, j, 32, -1, false, true}, Shape: sh, Len: nb*B + 100, Reps: 3})
						}
					}
				}
			}
			// heterogeneous input: consecutive blocks of different detected data types, codecs whose
			// transforms look at the per-block context (dataType)
			for _, cd := range [][2]string{{"ROLZ", "NONE"}, {"TEXT+LZ", "HUFFMAN"}, {"RLT+LZX", "ANS0"}, {"TEXT+UTF+PACK+MM+LZX", "HUFFMAN"}, {"EXE+RLT+TEXT+UTF+DNA", "FPAQ"}, {"DNA+LZ", "HUFFMAN"}, {"LZP+TEXT+UTF+BWT+LZP", "ANS1"}} {
				for _, j := range []uint{2, 3, 4, 5, 8} {
					for _, nb := range []int{int(j) + 1, 2*int(j) + 3, 19} {
						emit(detCase{P: Params{cd[0], cd[1], B, j, 32, -1, false, false}, Shape: "mixed", Len: nb*B + 100, Reps: 2})
						emit(detCase{P: Params{cd[0], cd[1], 4 * B, j, 0, int64(4*nb*B + 100), false, false}, Shape: "mixed", Len: 4*nb*B + 100, Reps: 1})
					}
				}
			}
			// data that starts with a file signature, chains with dataType-sensitive stages, a first Write
			// of 1..5 bytes (signature detection must not depend on what the first call carries)
			for _, cd := range [][2]string{{"TEXT", "ANS0"}, {"TEXT+UTF+PACK+MM+LZX", "HUFFMAN"}, {"EXE+RLT+TEXT+UTF+DNA", "FPAQ"}, {"LZ", "NONE"}} {
				for _, sh := range []string{"bmtext", "bmp", "wav16s", "elf", "zipmagic-text"} {
					for _, first := range []int{1, 2, 3, 4, 5, 8, 1000} {
						for _, j := range []uint{1, 3} {
							emit(detCase{P: Params{cd[0], cd[1], 16 * B, j, 32, -1, false, false}, Shape: sh, Len: 40*B + 77, Parts: []int{first}, Reps: 1})
						}
					}
				}
			}
			// (iii) compositions of the input into Write calls
			alpha := []int{1, 15, 16, 17, B - 1, B, B + 1, 2 * B, 3 * B}
			total := 3*B + B/2
			var rec func(parts []int, sum int)
			rec = func(parts []int, sum int) {
				if sum >= total || len(parts) >= pick(c, 4, 5) {
					for _, j := range []uint{1, 3} {
						emit(detCase{P: Params{"LZ", "HUFFMAN", B, j, 32, -1, false, false}, Shape: "text", Len: total, Parts: append([]int{}, parts...), Reps: 1})
					}
					return
				}
				for _, a := range alpha {
					rec(append(parts, a), sum+a)
				}
			}
			rec(nil, 0)
		})
	})
}

func keysOf(m map[string]int) []string {
	var k []string
	for x := range m {
		k = append(k, x)
	}
	sortStrings(k)
	return k
}
