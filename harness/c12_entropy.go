package main

// C12 Entropy codecs: exact inverse pairs with bit-exact consumption. Every member of a finite
// grid (length x histogram family x arrangement) per codec; a 64-bit sentinel written after the
// block must be read back intact by the decoder's bitstream.

import (
	"bytes"
	"fmt"

	"github.com/flanglet/kanzi-go/v2/bitstream"
	"github.com/flanglet/kanzi-go/v2/entropy"
)

type entCase struct {
	Codec string `json:"codec"`
	Len   int    `json:"len"`
	Hist  string `json:"hist"` // 1sym 2sym 16sym 255flat 256flat geo fib raredom
	K     int    `json:"k,omitempty"`
	C     int    `json:"c,omitempty"`
	M     int    `json:"m,omitempty"`
	Arr   string `json:"arr"` // sorted | inter | rev
	// Poke > 0: after the arrangement, the byte at PokeAt is set to Poke-1 (content at an internal
	// chunk boundary: adaptive codecs carry context across it)
	Poke   int `json:"poke,omitempty"`
	PokeAt int `json:"poke_at,omitempty"`
}

func (e entCase) String() string {
	if e.Poke > 0 {
		return fmt.Sprintf("%s|%d|%s|%d|%d|%d|%s|poke %d@%d", e.Codec, e.Len, e.Hist, e.K, e.C, e.M, e.Arr, e.Poke-1, e.PokeAt)
	}
	return fmt.Sprintf("%s|%d|%s|%d|%d|%d|%s", e.Codec, e.Len, e.Hist, e.K, e.C, e.M, e.Arr)
}

func (e entCase) data() []byte {
	n := e.Len
	out := make([]byte, 0, n)
	fillFlat := func(syms int) {
		for i := 0; len(out) < n; i++ {
			out = append(out, byte((i*syms/max(n, 1))%syms))
		}
	}
	switch e.Hist {
	case "1sym":
		for len(out) < n {
			out = append(out, 0x42)
		}
	case "2sym":
		for i := 0; len(out) < n; i++ {
			if i < n/5 {
				out = append(out, 3)
			} else {
				out = append(out, 200)
			}
		}
	case "16sym":
		fillFlat(16)
	case "255flat":
		fillFlat(255)
	case "256flat":
		fillFlat(256)
	case "geo":
		// symbol s gets about n/2^(s+1) occurrences, at least 1 while room
		rem := n
		for s := 0; s < 256 && rem > 0; s++ {
			cnt := max(rem/2, 1)
			if s == 255 {
				cnt = rem
			}
			for j := 0; j < cnt; j++ {
				out = append(out, byte(s))
			}
			rem -= cnt
		}
	case "fib":
		w := []int{1, 1}
		tot := 2
		for tot < n && len(w) < 256 {
			w = append(w, w[len(w)-1]+w[len(w)-2])
			tot += w[len(w)-1]
		}
		for s := len(w) - 1; s >= 0 && len(out) < n; s-- {
			for j := 0; j < w[s] && len(out) < n; j++ {
				out = append(out, byte(s))
			}
		}
		for len(out) < n {
			out = append(out, 0)
		}
	case "hotquarter":
		// non-stationary chunks: per 16 KiB chunk three quarters use two byte values (2/3, 1/3), the
		// quarter number K is uniform over the other 254 values (long codes concentrated in one place)
		for i := 0; len(out) < n; i++ {
			q := (i % 16384) / 4096
			if q == e.K%4 {
				out = append(out, byte(2+(i*131+i/254)%254))
			} else if i%3 == 0 {
				out = append(out, 1)
			} else {
				out = append(out, 0)
			}
		}
	case "kflat":
		// exactly K distinct symbols, evenly used, spread over the byte range (alphabet encoding modes)
		k := max(e.K, 1)
		for i := 0; len(out) < n; i++ {
			out = append(out, byte((i%k)*255/max(k-1, 1)))
		}
	case "geoR":
		// K symbols with counts falling geometrically by ratio C/100, the tail clamped to 1, the
		// dominant symbol absorbing the remainder so that the total is exactly n (deep Huffman trees:
		// ratios between 1/2 and the golden ratio defeat the fast code-length repair)
		r := float64(e.C) / 100
		k := max(e.K, 1)
		w := make([]float64, k)
		sum := 0.0
		for i := range w {
			w[i] = 1
			for j := 0; j < i; j++ {
				w[i] *= r
			}
			sum += w[i]
		}
		cnt := make([]int, k)
		tot := 0
		for i := k - 1; i >= 1; i-- {
			cnt[i] = max(int(w[i]/sum*float64(n)), 1)
			tot += cnt[i]
		}
		cnt[0] = max(n-tot, 1)
		for s := 0; s < k && len(out) < n; s++ {
			// symbol values are NOT in frequency order: symbol = (s*37+11) mod 256 style permutation
			v := byte((s*37 + 11) % 251)
			for j := 0; j < cnt[s] && len(out) < n; j++ {
				out = append(out, v)
			}
		}
		for len(out) < n {
			out = append(out, byte(11))
		}
	case "raredom":
		out = genRareDom(n, e.K, e.C, e.M, false)
	}
	switch e.Arr {
	case "rev":
		for i, j := 0, len(out)-1; i < j; i, j = i+1, j-1 {
			out[i], out[j] = out[j], out[i]
		}
	case "inter":
		if n > 2 {
			st := 7919
			for gcd(st, n) != 1 {
				st++
			}
			p := make([]byte, n)
			for i := range out {
				p[(i*st)%n] = out[i]
			}
			out = p
		}
	}
	if e.Poke > 0 && e.PokeAt < len(out) {
		out[e.PokeAt] = byte(e.Poke - 1)
	}
	return out
}

func entropyCtx(codec string, n int) map[string]any {
	bs := uint((n + 1023) &^ 1023)
	if bs < 1024 {
		bs = 1024
	}
	return map[string]any{"entropy": codec, "transform": "NONE", "blockSize": bs, "size": uint(n), "bsVersion": uint(6), "jobs": uint(1), "checksum": uint(0)}
}

const sentinel = uint64(0xA5C3_0F69_5AE1_D287)

func runEntropy(e entCase) (*Fail, bool) {
	data := e.data()
	ty, err := entropy.GetType(e.Codec)
	if err != nil {
		return failf("harness", "%v", err), false
	}
	lenClass := "len>0"
	if e.Len == 0 {
		lenClass = "len=0"
	}
	cls := fmt.Sprintf("codec=%s %s hist=%s", e.Codec, lenClass, e.Hist)
	if e.Len == 0 {
		cls = fmt.Sprintf("codec=%s len=0", e.Codec)
	}
	sk := &memSink{}
	obs, _ := bitstream.NewDefaultOutputBitStream(sk, 16384)
	obs.WriteBits(0x5, 3) // the block does not start on a byte boundary, as in the container
	enc, err := entropy.NewEntropyEncoder(obs, entropyCtx(e.Codec, e.Len), ty)
	if err != nil {
		return failf("encoder-construction "+cls, "%v", err), true
	}
	if _, err := enc.Write(data); err != nil {
		return failf("encode-error "+cls, "%s: %v", e, err), true
	}
	enc.Dispose()
	wbits := obs.Written()
	obs.WriteBits(sentinel, 64)
	obs.WriteBits(0x2B, 6)
	obs.Close()
	ibs, _ := bitstream.NewDefaultInputBitStream(newSrc(sk.Bytes()), 16384)
	if v := ibs.ReadBits(3); v != 5 {
		return failf("harness", "prefix bits"), false
	}
	dec, err := entropy.NewEntropyDecoder(ibs, entropyCtx(e.Codec, e.Len), ty)
	if err != nil {
		return failf("decoder-construction "+cls, "%v", err), true
	}
	out := make([]byte, len(data))
	if _, err := dec.Read(out); err != nil {
		return failf("decode-error "+cls, "%s: %v", e, err), true
	}
	dec.Dispose()
	if !bytes.Equal(out, data) {
		return failf("decoded!=block "+cls, "%s: decoded block differs at %d of %d (no error)", e, firstDiff(out, data), len(data)), true
	}
	rbits := ibs.Read()
	s := ibs.ReadBits(64)
	t := ibs.ReadBits(6)
	if rbits != wbits || s != sentinel || t != 0x2B {
		return failf("bits-read!=bits-written "+cls, "%s: encoder wrote %d bits, decoder consumed %d; sentinel read back %#x (want %#x)", e, wbits, rbits, s, sentinel), true
	}
	return nil, e.Len > 0
}

var famEnt = NewFamily("C12.block", runEntropy)

func init() {
	register("C12", "exploration", func(c *Ctx) {
		c.Rule("per codec the complete product: length in {0..40, 63..65, chunk-1, chunk, chunk+1, 2*chunk+7 for the codec's chunk size} + a ladder of 25 odd lengths in 4-16 KiB; histogram in {1 symbol, 2, 16, 255 flat, 256 flat, non-stationary chunks (long codes concentrated in one quarter of a 16 KiB chunk), exactly k symbols for 20 alphabet sizes 1..256 (alphabet encoding modes), geometric, Fibonacci and geometric with ratio 0.50..0.80 over 24..250 symbols at totals 2048..16384 (deep Huffman trees, code-length repair and its retry), k rare symbols of count c + m dominant for k in {64,128,192,240,250}, c in 1..12 (quick: {1,3,7,12}), m in {1,2,4,8,16}}; arrangement in {sorted, interleaved, reversed}; the block starts at bit offset 3 and is followed by a 64-bit sentinel + 6 bits. Oracle: decoded == block, decoder consumed exactly the bits the encoder wrote, sentinel intact. Adaptive codecs (CM/TPAQ/TPAQX/FPAQ at 4 MiB) use the reduced grid in quick. Non-trivial = non-empty block")
		famEnt.Each(c, 0, func(emit func(entCase)) {
			ladder := []int{}
			for i := 0; i < 25; i++ {
				ladder = append(ladder, 4097+i*487+(i%2)*2)
			}
			for _, codec := range allEntropies {
				adaptive := codec == "CM" || codec == "TPAQ" || codec == "TPAQX"
				// internal chunk sizes as read in the codecs: Huffman 16 KiB, ANS0 16 KiB, ANS1 16 KiB << 8 = 4 MiB, Range 32 KiB
				chunk := map[string]int{"HUFFMAN": 16384, "ANS0": 16384, "RANGE": 32768}[codec]
				var lens []int
				for i := 0; i <= 40; i++ {
					lens = append(lens, i)
				}
				lens = append(lens, 63, 64, 65, 255, 256, 257, 1023, 1024, 1025, 2047, 2048, 2049)
				if chunk > 0 {
					lens = append(lens, chunk-1, chunk, chunk+1, chunk+2, chunk+3, chunk+5, chunk+33, chunk+2048, 2*chunk+7)
				} else if codec == "ANS1" {
					lens = append(lens, 16383, 16384, 16385, 32775)
				} else {
					lens = append(lens, 16383, 16384, 16385, 32775)
				}
				if c.Thorough() && !adaptive {
					lens = append(lens, 1<<20+5)
				}
				if chunk > 0 {
					for _, v := range []int{0x00, 0x41, 0xFF} {
						for _, at := range []int{chunk - 1, chunk} {
							for _, h := range []string{"16sym", "256flat"} {
								emit(entCase{Codec: codec, Len: 2*chunk + 7, Hist: h, Arr: "inter", Poke: v + 1, PokeAt: at})
							}
						}
					}
				}
				for _, n := range []int{1, 5, 64, 300, 4096} {
					for _, k := range []int{1, 2, 3, 15, 16, 17, 31, 32, 33, 63, 64, 65, 127, 128, 129, 200, 250, 254, 255, 256} {
						if k > n && n > 1 {
							continue
						}
						if adaptive && !c.Thorough() && n > 300 {
							continue
						}
						emit(entCase{Codec: codec, Len: n, Hist: "kflat", K: k, Arr: "inter"})
					}
				}
				for _, n := range []int{9217, 16384, 20000, 40000} {
					for q := 0; q < 4; q++ {
						if adaptive && !c.Thorough() {
							continue
						}
						emit(entCase{Codec: codec, Len: n, Hist: "hotquarter", K: q, Arr: "sorted"})
					}
				}
				hists := []string{"1sym", "2sym", "16sym", "255flat", "256flat", "geo", "fib"}
				arrs := []string{"sorted", "inter", "rev"}
				for _, n := range lens {
					if adaptive && !c.Thorough() && n > 1025 && n != 16385 {
						continue
					}
					for _, h := range hists {
						for _, a := range arrs {
							if adaptive && !c.Thorough() && a == "rev" {
								continue
							}
							emit(entCase{Codec: codec, Len: n, Hist: h, Arr: a})
						}
					}
				}
				if codec == "ANS1" || codec == "FPAQ" {
					// 4 MiB internal chunks: the tail chunk of 1..5, 32, 33 bytes
					for _, d := range []int{1, 2, 3, 4, 5, 32, 33} {
						for _, h := range pick(c, []string{"16sym"}, []string{"16sym", "geo", "256flat"}) {
							emit(entCase{Codec: codec, Len: 4<<20 + d, Hist: h, Arr: "inter"})
						}
					}
					// content at the 4 MiB chunk boundary: the last byte of the first chunk and the first
					// byte of the second take every value class of the order-1 / 2-bit contexts
					for _, d := range pick(c, []int{4099}, []int{1, 4099, 70000}) {
						for _, v := range []int{0x00, 0x3F, 0x40, 0x7F, 0x80, 0xC3, 0xFF} {
							for _, at := range []int{4<<20 - 1, 4 << 20} {
								emit(entCase{Codec: codec, Len: 4<<20 + d, Hist: "256flat", Arr: "inter", Poke: v + 1, PokeAt: at})
							}
						}
					}
				}
				// geometric histograms with ratios around 0.56 (code lengths beyond the Huffman limit after
				// the first repair), totals incl. exactly 2048 (the renormalisation scale of the retry)
				for _, n := range []int{2048, 4096, 6540, 16384} {
					for _, k := range []int{12, 16, 20, 24, 32, 46, 64, 100, 145, 250} {
						for _, r := range []int{50, 52, 54, 56, 57, 58, 59, 60, 62, 64, 66, 68, 70, 75, 80} {
							for _, a := range []string{"sorted", "inter"} {
								if adaptive && (a != "inter" || n > 4096 || !c.Thorough()) {
									continue
								}
								emit(entCase{Codec: codec, Len: n, Hist: "geoR", K: k, C: r, Arr: a})
							}
						}
					}
				}
				if adaptive && !c.Thorough() {
					continue
				}
				cs := pick(c, []int{1, 3, 7, 12}, []int{1, 2, 3, 4, 5, 6, 7, 8, 9, 10, 11, 12})
				for _, n := range ladder {
					for _, k := range []int{64, 128, 192, 240, 250} {
						for _, cc := range cs {
							for _, m := range []int{1, 2, 4, 8, 16} {
								if k*cc+m > n || k+m > 256 {
									continue
								}
								for _, a := range pick(c, []string{"sorted", "inter"}, arrs) {
									if adaptive && a != "inter" {
										continue
									}
									emit(entCase{Codec: codec, Len: n, Hist: "raredom", K: k, C: cc, M: m, Arr: a})
								}
							}
						}
					}
				}
			}
		})
	})
}
