// Package sync mirrors the part of sync that CompressedStream.go (or a variant of it) may use.
// Under an active controlled scheduler WaitGroup/Mutex/Once operations are scheduling points;
// otherwise they delegate to the real package (free-running and -race builds).
package sync

import (
	realsync "sync"

	"github.com/flanglet/kanzi-go/v2/zverif/vcoop"
)

type Locker = realsync.Locker
type Pool = realsync.Pool
type Map = realsync.Map

type WaitGroup struct {
	st   vcoop.WaitGroupState
	real realsync.WaitGroup
}

func (w *WaitGroup) Add(n int) {
	if vcoop.Active() == nil {
		w.real.Add(n)
		return
	}
	vcoop.WgAdd(&w.st, n)
}
func (w *WaitGroup) Done() {
	if vcoop.Active() == nil {
		w.real.Done()
		return
	}
	vcoop.WgDone(&w.st)
}
func (w *WaitGroup) Wait() {
	if vcoop.Active() == nil {
		w.real.Wait()
		return
	}
	vcoop.WgWait(&w.st)
}

type Mutex struct {
	st   vcoop.MutexState
	real realsync.Mutex
}

func (m *Mutex) Lock() {
	if vcoop.Active() == nil {
		m.real.Lock()
		return
	}
	vcoop.MuLock(&m.st)
}
func (m *Mutex) TryLock() bool {
	if vcoop.Active() == nil {
		return m.real.TryLock()
	}
	return vcoop.MuTryLock(&m.st)
}
func (m *Mutex) Unlock() {
	if vcoop.Active() == nil {
		m.real.Unlock()
		return
	}
	vcoop.MuUnlock(&m.st)
}

type RWMutex struct {
	st   vcoop.MutexState
	real realsync.RWMutex
}

func (m *RWMutex) Lock() {
	if vcoop.Active() == nil {
		m.real.Lock()
		return
	}
	vcoop.MuLock(&m.st)
}
func (m *RWMutex) Unlock() {
	if vcoop.Active() == nil {
		m.real.Unlock()
		return
	}
	vcoop.MuUnlock(&m.st)
}
func (m *RWMutex) RLock() {
	if vcoop.Active() == nil {
		m.real.RLock()
		return
	}
	vcoop.MuRLock(&m.st)
}
func (m *RWMutex) RUnlock() {
	if vcoop.Active() == nil {
		m.real.RUnlock()
		return
	}
	vcoop.MuRUnlock(&m.st)
}

type Once struct {
	m    Mutex
	done bool
}

func (o *Once) Do(f func()) {
	o.m.Lock()
	defer o.m.Unlock()
	if !o.done {
		o.done = true
		f()
	}
}

// Cond: Wait releases the lock and blocks until Signal/Broadcast; under the controlled scheduler the
// blocked thread is disabled until it has been woken (earliest waiter first, like the runtime).
type Cond struct {
	L    Locker
	st   vcoop.CondState
	real *realsync.Cond
}

func NewCond(l Locker) *Cond { return &Cond{L: l, real: realsync.NewCond(l)} }

func (c *Cond) Wait() {
	if vcoop.Active() == nil {
		c.real.Wait()
		return
	}
	vcoop.CondEnlist(&c.st)
	c.L.Unlock()
	vcoop.CondBlock(&c.st)
	c.L.Lock()
}

func (c *Cond) Signal() {
	if vcoop.Active() == nil {
		c.real.Signal()
		return
	}
	vcoop.CondWake(&c.st, false)
}

func (c *Cond) Broadcast() {
	if vcoop.Active() == nil {
		c.real.Broadcast()
		return
	}
	vcoop.CondWake(&c.st, true)
}
