package sync

import (
	realsync "sync"

	"github.com/flanglet/kanzi-go/v2/zverif/vcoop"
)

type Mutex = realsync.Mutex

type WaitGroup struct {
	st   vcoop.WaitGroupState
	real realsync.WaitGroup
}

func (w *WaitGroup) Add(n int) {
	if vcoop.Active() == nil {
		w.real.Add(n)
		return
	}
	vcoop.WgAdd(&w.st, n)
}
func (w *WaitGroup) Done() {
	if vcoop.Active() == nil {
		w.real.Done()
		return
	}
	vcoop.WgDone(&w.st)
}
func (w *WaitGroup) Wait() {
	if vcoop.Active() == nil {
		w.real.Wait()
		return
	}
	vcoop.WgWait(&w.st)
}
