// Package vcoop is a controlled cooperative scheduler for the goroutines, atomics and WaitGroups
// of kanzi-go's CompressedStream.go (instrumented copy, see /verif/tools/instrument).
//
// Exactly one controlled thread runs at a time. Before every synchronisation operation the
// running thread publishes the operation and lets the scheduler pick who runs next, according to
// a choice sequence supplied by the explorer. Outside an exploration (no active scheduler) every
// entry point is a pass-through to the real sync / sync/atomic / runtime implementation.
package vcoop

import (
	"fmt"
	"runtime"
	realatomic "sync/atomic"
	"unsafe"
)

type OpKind int

const (
	OpStart OpKind = iota
	OpLoad
	OpStore
	OpCAS
	OpSwap
	OpAdd
	OpWgDone
	OpWgWait
	OpStream
	OpFault
	OpExit
	OpLock
	OpUnlock
	OpRLock
	OpRUnlock
	OpCondWait
	OpCondSignal
)

var kindNames = []string{"start", "load", "store", "cas", "swap", "add", "wgdone", "wgwait", "stream", "fault", "exit", "lock", "unlock", "rlock", "runlock", "condwait", "condsignal"}

func (k OpKind) String() string { return kindNames[k] }

func (k OpKind) isWrite() bool { return k == OpStore || k == OpCAS || k == OpSwap || k == OpAdd }

type Thread struct {
	ID       int
	wake     chan struct{}
	kind     OpKind
	obj      unsafe.Pointer
	done     bool
	spinning bool
	lastAddr unsafe.Pointer
	lastSite uintptr
	lastEp   uint64
	respins  int
	site     uint64 // hash of the call path of the pending operation (cache mode only)
}

func (t *Thread) Done() bool { return t.done }

type PendOp struct {
	Thread int
	Kind   OpKind
	Obj    unsafe.Pointer
}

type PointRec struct {
	Enabled        int
	Chosen         int
	RunningEnabled bool
	Thread         int
	Kind           OpKind
	Pend           []PendOp     // pending ops of the enabled threads, canonical order (sleep mode only)
	SleepBefore    map[int]bool // threads asleep at this state (sleep mode only)
	StateHash      uint64       // abstract protocol state before the choice
	Key            uint64       // full exploration key (cache mode): StateHash + call paths + stream-op order + observations
}

// Independent is the (conservative) independence relation used by the sleep-set reduction.
func Independent(a, b PendOp) bool {
	if a.Thread == b.Thread {
		return false
	}
	if a.Kind == OpStart || b.Kind == OpStart {
		return true
	}
	if a.Obj != b.Obj {
		return true
	}
	return a.Kind == OpLoad && b.Kind == OpLoad
}

type Abort struct{ Reason string }

// Event is what the monitor of an execution sees (after the operation took effect).
type Event struct {
	Thread int
	Kind   OpKind
	Obj    unsafe.Pointer
	Val    int64  // value loaded / stored / new value
	OK     bool   // CAS success
	Detail string // stream op name, fault site
}

type Sched struct {
	Threads []*Thread
	cur     *Thread
	Prefix  []int
	Points  []PointRec
	epoch   map[unsafe.Pointer]uint64
	Aborted *Abort
	// Fault selection: FaultThread = thread id, FaultSite = "compute" | "stream", FaultNth = n-th
	// (0-based) stream operation of that thread.
	FaultThread int
	FaultSite   string
	FaultNth    int
	FaultFired  bool
	streamOps   map[int]int
	Horizon     int
	UseSleep    bool
	SleepInit   map[int]bool // sleep set holding right after the prefix
	sleep       map[int]bool
	Redundant   bool // sleep-blocked: execution continued with default choices, not to be branched
	OnEvent     func(e Event)
	// abstract state
	objIdx  map[unsafe.Pointer]int
	objVals []int64
	Holder  int // maintained by the monitor (stream holder), part of the abstract state
	mainParked bool
	// cache mode: state-caching exploration
	UseCache bool
	MergeAt  int                 // index of the first point whose state had been visited before (-1: none)
	Visited  map[uint64]struct{} // shared across the executions of one exploration
	OpSeq    uint64              // order-sensitive hash of the shared-stream operations performed so far
	ObsHash  uint64              // hash of what the driver has observed so far (API call results)
	// directed replay (model -> implementation): thread ids to run at the successive points where
	// more than the calling goroutine is enabled; exhausted -> default choices
	Directed []int
	dirPos   int
	DirErr   string
	// stall injection: the thread StallThread, once it is waiting in a spin loop, polls StallPolls
	// times in a row while every other thread stands still (a predecessor that is merely slow:
	// blocked in I/O, descheduled). An unbounded wait is unaffected; a BOUNDED wait gives up.
	StallPolls int64
	stall      map[int]int64 // thread id -> polls left
	stallUsed  map[int]int64
	StallUsed  int64 // polls actually performed in stalls (all threads)
}

var active *Sched

func Active() *Sched { return active }

// ArmStall sets the number of consecutive polls of the stalled thread.
func (s *Sched) ArmStall(thread int, polls int64) {
	if s.stall == nil {
		s.stall, s.stallUsed = map[int]int64{}, map[int]int64{}
	}
	s.StallPolls = polls
	s.stall[thread] = polls
}

func New(prefix []int) *Sched {
	s := &Sched{Prefix: prefix, epoch: map[unsafe.Pointer]uint64{}, Horizon: 20000, FaultThread: -1, streamOps: map[int]int{}, objIdx: map[unsafe.Pointer]int{}, Holder: -1, MergeAt: -1}
	t := &Thread{ID: 0, wake: make(chan struct{}, 1)}
	s.Threads = []*Thread{t}
	s.cur = t
	return s
}

// Run executes body as thread 0 under the scheduler and returns the abort reason, if any.
func (s *Sched) Run(body func()) (ab *Abort) {
	active = s
	defer func() { active = nil }()
	defer func() {
		if r := recover(); r != nil {
			if a, ok := r.(*Abort); ok {
				ab = a
				return
			}
			panic(r)
		}
	}()
	body()
	s.Threads[0].done = true
	for s.anyLive() && s.Aborted == nil {
		s.mainParked = true
		s.switchFrom(s.Threads[0], true)
		s.mainParked = false
	}
	return s.Aborted
}

func (s *Sched) anyLive() bool {
	for _, t := range s.Threads {
		if !t.done {
			return true
		}
	}
	return false
}

func (s *Sched) Cur() *Thread { return s.cur }
func (s *Sched) CurID() int   { return s.cur.ID }

type WaitGroupState struct{ n int }

type MutexState struct {
	held    bool
	owner   int
	readers int
}

func (s *Sched) enabled(t *Thread) bool {
	if t.done {
		return false
	}
	switch t.kind {
	case OpWgWait:
		return (*WaitGroupState)(t.obj).n <= 0
	case OpLock:
		m := (*MutexState)(t.obj)
		return !m.held && m.readers == 0
	case OpRLock:
		return !(*MutexState)(t.obj).held
	case OpCondWait:
		return !(*CondState)(t.obj).waiting[t.ID]
	}
	return true
}

func (s *Sched) setVal(obj unsafe.Pointer, v int64) {
	i, ok := s.objIdx[obj]
	if !ok {
		i = len(s.objVals)
		s.objIdx[obj] = i
		s.objVals = append(s.objVals, 0)
	}
	s.objVals[i] = v
}

func (s *Sched) stateHash() uint64 {
	const prime = 1099511628211
	h := uint64(14695981039346656037)
	mix := func(v uint64) {
		h ^= v
		h *= prime
	}
	for _, v := range s.objVals {
		mix(uint64(v) + 0x9E37)
	}
	mix(0xFFFF)
	for _, t := range s.Threads {
		switch {
		case t.done:
			mix(1)
		default:
			k := uint64(t.kind)<<2 | 2
			if t.spinning {
				k |= 1 << 12
			}
			if i, ok := s.objIdx[t.obj]; ok {
				k |= uint64(i+1) << 16
			}
			mix(k)
		}
	}
	mix(uint64(s.Holder + 7))
	return h
}

// point: the running thread announces its pending op and lets the scheduler choose who runs.
func (s *Sched) point(kind OpKind, obj unsafe.Pointer) {
	t := s.cur
	t.kind, t.obj = kind, obj
	if s.stall != nil && s.stallUsed[t.ID] > 0 {
		s.stall[t.ID] = 0 // the stalled thread left its wait loop (or its budget ended): one stall per thread
	}
	if s.UseCache {
		var pcs [8]uintptr
		n := runtime.Callers(2, pcs[:])
		h := uint64(1469598103934665603)
		for _, pc := range pcs[:n] {
			h = (h ^ uint64(pc)) * 1099511628211
		}
		t.site = h
	}
	s.switchFrom(t, false)
}

func (s *Sched) fullKey(sh uint64) uint64 {
	h := sh
	mix := func(v uint64) { h = (h ^ v) * 1099511628211 }
	for _, t := range s.Threads {
		if !t.done {
			mix(t.site)
		} else {
			mix(3)
		}
	}
	mix(s.OpSeq)
	mix(s.ObsHash)
	if s.FaultFired {
		mix(0xFA)
	}
	return h
}

func (s *Sched) switchFrom(t *Thread, exiting bool) {
	if s.Aborted != nil {
		// The execution was aborted earlier (deadlock / livelock / horizon) but a recover() in the
		// code under test swallowed the abort panic: raise it again at every scheduling point
		// until the driver unwinds.
		if t.ID == 0 {
			panic(s.Aborted)
		}
		select {}
	}
	if len(s.Points) > s.Horizon {
		s.abort("horizon")
	}
	var en, spin []*Thread
	if !exiting && s.enabled(t) {
		if t.spinning {
			spin = append(spin, t)
		} else {
			en = append(en, t)
		}
	}
	runningEnabled := len(en) == 1
	for _, x := range s.Threads {
		if x == t || !s.enabled(x) {
			continue
		}
		if x.spinning {
			spin = append(spin, x)
		} else {
			en = append(en, x)
		}
	}
	if len(en) == 0 {
		if len(spin) > 0 {
			// only spinners are left: let them re-check; if nothing changes they spin forever
			for _, x := range spin {
				x.respins++
				if x.respins > 3 {
					s.abort(fmt.Sprintf("livelock: thread %d waits forever on a value nobody will change", x.ID))
				}
			}
			en = spin
			runningEnabled = false
		} else if s.anyLive() {
			s.abort("deadlock: threads are blocked and none can run")
		} else {
			// everything has finished; if the main thread is parked in Run's final loop, release it
			if t.ID != 0 && s.mainParked {
				s.mainParked = false
				s.cur = s.Threads[0]
				s.Threads[0].wake <- struct{}{}
			}
			return
		}
	}
	idx := 0
	n := len(s.Points)
	var pend []PendOp
	var sleepBefore map[int]bool
	if s.UseSleep {
		for _, x := range en {
			pend = append(pend, PendOp{x.ID, x.kind, x.obj})
		}
	}
	if n < len(s.Prefix) {
		idx = s.Prefix[n]
		if idx >= len(en) {
			panic(fmt.Sprintf("vcoop: replay divergence at point %d: choice %d of %d enabled", n, idx, len(en)))
		}
		if s.UseSleep && n == len(s.Prefix)-1 {
			s.sleep = s.SleepInit
		}
	} else if s.UseSleep && !s.Redundant {
		sleepBefore = s.sleep
		idx = -1
		for i, x := range en {
			if !s.sleep[x.ID] {
				idx = i
				break
			}
		}
		if idx < 0 {
			// every enabled thread is asleep: this execution is covered elsewhere. Finish it with
			// default choices so that no goroutine is leaked; the explorer does not branch it.
			s.Redundant = true
			idx = 0
		} else {
			ns := map[int]bool{}
			for i, x := range en {
				if s.sleep[x.ID] && Independent(pend[i], pend[idx]) {
					ns[x.ID] = true
				}
			}
			s.sleep = ns
		}
	}
	if s.Directed != nil && s.dirPos < len(s.Directed) && n >= len(s.Prefix) {
		want := s.Directed[s.dirPos]
		found := -1
		for i, x := range en {
			if x.ID == want {
				found = i
			}
		}
		switch {
		case found >= 0:
			idx = found
			s.dirPos++
		case len(en) == 1 && en[0].ID == 0:
			idx = 0 // the calling goroutine runs alone (before the tasks exist / after they finished)
		default:
			s.DirErr = fmt.Sprintf("directed step %d wants thread %d, which is not enabled (enabled: %d threads, first T%d)", s.dirPos, want, len(en), en[0].ID)
			s.Directed = nil
			idx = 0
		}
	}
	sh := s.stateHash()
	var key uint64
	if s.UseCache {
		key = s.fullKey(sh)
		if n >= len(s.Prefix) && s.MergeAt < 0 {
			if _, seen := s.Visited[key]; seen {
				// this global state has been (or is being) explored from another path: the rest of
				// this execution runs with default choices and the explorer does not branch from
				// this point on (the first visitor of the state does)
				s.MergeAt = n
			} else {
				s.Visited[key] = struct{}{}
			}
		}
	}
	nxt := en[idx]
	s.Points = append(s.Points, PointRec{Enabled: len(en), Chosen: idx, RunningEnabled: runningEnabled, Thread: nxt.ID, Kind: nxt.kind, Pend: pend, SleepBefore: sleepBefore, StateHash: sh, Key: key})
	if nxt == t {
		return
	}
	s.cur = nxt
	nxt.wake <- struct{}{}
	if exiting && t.ID != 0 {
		return
	}
	<-t.wake
	if s.Aborted != nil {
		if t.ID == 0 {
			panic(s.Aborted)
		}
		select {} // parked forever on purpose: the execution was aborted
	}
}

func (s *Sched) abort(reason string) {
	s.Aborted = &Abort{Reason: reason}
	if s.cur.ID != 0 {
		m := s.Threads[0]
		s.cur = m
		m.wake <- struct{}{}
		select {} // parked forever on purpose
	}
	panic(s.Aborted)
}

func (s *Sched) note(e Event) {
	if s.OnEvent != nil {
		e.Thread = s.cur.ID
		s.OnEvent(e)
	}
}

// ---- API used by instrumented code ----

func Go(f func()) {
	s := active
	if s == nil {
		go f()
		return
	}
	t := &Thread{ID: len(s.Threads), wake: make(chan struct{}, 1), kind: OpStart}
	s.Threads = append(s.Threads, t)
	go func() {
		<-t.wake
		if s.Aborted != nil {
			return
		}
		s.note(Event{Kind: OpStart})
		f()
		t.done = true
		s.note(Event{Kind: OpExit})
		s.switchFrom(t, true)
	}()
}

func Yield() {
	if active == nil {
		runtime.Gosched()
	}
}

type InjectedFault struct{ Site string }

func (f *InjectedFault) Error() string { return "injected fault at " + f.Site }

// FaultPoint is inserted by the instrumenter at the start of the encode/decode task bodies.
func FaultPoint(site string) {
	s := active
	if s == nil || s.FaultFired || s.FaultSite != "compute" || s.FaultThread != s.cur.ID {
		return
	}
	s.FaultFired = true
	s.note(Event{Kind: OpFault, Detail: site})
	panic(&InjectedFault{site})
}

// StreamOp is called by the monitored bitstream wrapper before each operation on the shared stream.
func StreamOp(obj unsafe.Pointer, detail string) {
	s := active
	if s == nil {
		return
	}
	t := s.cur
	t.lastAddr = nil
	s.point(OpStream, obj)
	s.OpSeq = (s.OpSeq ^ (uint64(t.ID+1)*131 + uint64(len(detail))*7 + uint64(detail[0]))) * 1099511628211
	s.note(Event{Kind: OpStream, Obj: obj, Detail: detail})
	if detail == "Close" {
		return // a failing Close returns an error, it does not panic: not a fault placement here
	}
	n := s.streamOps[t.ID]
	s.streamOps[t.ID] = n + 1
	if !s.FaultFired && (s.FaultSite == "stream" || s.FaultSite == "stream-str") && s.FaultThread == t.ID && s.FaultNth == n {
		s.FaultFired = true
		s.note(Event{Kind: OpFault, Obj: obj, Detail: detail})
		if s.FaultSite == "stream-str" {
			// the library's own bitstreams raise some failures as plain strings, not error values
			panic(fmt.Sprintf("injected failure (string value) in stream op %d (%s) of thread %d", n, detail, t.ID))
		}
		panic(&InjectedFault{fmt.Sprintf("stream op %d (%s) of thread %d", n, detail, t.ID)})
	}
}

func callerPC() uintptr {
	var pcs [1]uintptr
	runtime.Callers(5, pcs[:])
	return pcs[0]
}

func (s *Sched) wrote(addr unsafe.Pointer) {
	s.epoch[addr]++
	for _, x := range s.Threads {
		if x.lastAddr == addr {
			x.spinning = false
			x.respins = 0
		}
	}
}

// load/store primitives on 64-bit abstract values; width handled by the callers

func (s *Sched) doLoad(addr unsafe.Pointer, read func() int64) int64 {
	t := s.cur
	if s.stall != nil && s.stall[t.ID] > 0 && s.stallUsed[t.ID] > 0 && t.lastAddr == addr && t.lastSite != 0 {
		// still in the same wait loop (the caller's site is not re-derived for speed; the first load
		// from another place goes through the slow path below because lastAddr is cleared by any
		// other operation of the thread)
		s.stall[t.ID]--
		s.stallUsed[t.ID]++
		s.StallUsed++
		return read()
	}
	site := callerPC()
	if t.ID != 0 && t.lastAddr == addr && t.lastSite == site && t.lastEp == s.epoch[addr] {
		t.spinning = true
		if s.stall != nil && s.stall[t.ID] > 0 {
			s.stall[t.ID]--
			s.stallUsed[t.ID]++
			s.StallUsed++
			t.spinning = false // the load is performed right here
			return read()      // nobody else runs: same value, no scheduling point
		}
	}
	s.point(OpLoad, addr)
	v := read()
	t.lastAddr, t.lastSite, t.lastEp = addr, site, s.epoch[addr]
	t.spinning = false
	s.setVal(addr, v)
	s.note(Event{Kind: OpLoad, Obj: addr, Val: v})
	return v
}

func (s *Sched) doWrite(kind OpKind, addr unsafe.Pointer, apply func() (newv int64, changed bool, ok bool)) (int64, bool) {
	s.cur.lastAddr = nil
	s.point(kind, addr)
	v, changed, ok := apply()
	if changed {
		s.wrote(addr)
	}
	s.setVal(addr, v)
	s.note(Event{Kind: kind, Obj: addr, Val: v, OK: ok})
	return v, ok
}

func LoadInt32(p *int32) int32 {
	if s := active; s != nil {
		return int32(s.doLoad(unsafe.Pointer(p), func() int64 { return int64(*p) }))
	}
	return realatomic.LoadInt32(p)
}

func StoreInt32(p *int32, v int32) {
	if s := active; s != nil {
		s.doWrite(OpStore, unsafe.Pointer(p), func() (int64, bool, bool) { *p = v; return int64(v), true, true })
		return
	}
	realatomic.StoreInt32(p, v)
}

func CompareAndSwapInt32(p *int32, old, nw int32) bool {
	if s := active; s != nil {
		_, ok := s.doWrite(OpCAS, unsafe.Pointer(p), func() (int64, bool, bool) {
			if *p == old {
				*p = nw
				return int64(nw), true, true
			}
			return int64(*p), false, false
		})
		return ok
	}
	return realatomic.CompareAndSwapInt32(p, old, nw)
}

func SwapInt32(p *int32, nw int32) int32 {
	if s := active; s != nil {
		var old int32
		s.doWrite(OpSwap, unsafe.Pointer(p), func() (int64, bool, bool) { old = *p; *p = nw; return int64(nw), true, true })
		return old
	}
	return realatomic.SwapInt32(p, nw)
}

func AddInt32(p *int32, d int32) int32 {
	if s := active; s != nil {
		v, _ := s.doWrite(OpAdd, unsafe.Pointer(p), func() (int64, bool, bool) { *p += d; return int64(*p), true, true })
		return int32(v)
	}
	return realatomic.AddInt32(p, d)
}

func LoadInt64(p *int64) int64 {
	if s := active; s != nil {
		return s.doLoad(unsafe.Pointer(p), func() int64 { return *p })
	}
	return realatomic.LoadInt64(p)
}

func StoreInt64(p *int64, v int64) {
	if s := active; s != nil {
		s.doWrite(OpStore, unsafe.Pointer(p), func() (int64, bool, bool) { *p = v; return v, true, true })
		return
	}
	realatomic.StoreInt64(p, v)
}

func CompareAndSwapInt64(p *int64, old, nw int64) bool {
	if s := active; s != nil {
		_, ok := s.doWrite(OpCAS, unsafe.Pointer(p), func() (int64, bool, bool) {
			if *p == old {
				*p = nw
				return nw, true, true
			}
			return *p, false, false
		})
		return ok
	}
	return realatomic.CompareAndSwapInt64(p, old, nw)
}

func SwapInt64(p *int64, nw int64) int64 {
	if s := active; s != nil {
		var old int64
		s.doWrite(OpSwap, unsafe.Pointer(p), func() (int64, bool, bool) { old = *p; *p = nw; return nw, true, true })
		return old
	}
	return realatomic.SwapInt64(p, nw)
}

func AddInt64(p *int64, d int64) int64 {
	if s := active; s != nil {
		v, _ := s.doWrite(OpAdd, unsafe.Pointer(p), func() (int64, bool, bool) { *p += d; return *p, true, true })
		return v
	}
	return realatomic.AddInt64(p, d)
}

// ---- WaitGroup ----

func WgAdd(w *WaitGroupState, n int) { w.n += n }

func WgDone(w *WaitGroupState) {
	s := active
	s.cur.lastAddr = nil
	s.point(OpWgDone, unsafe.Pointer(w))
	w.n--
	s.setVal(unsafe.Pointer(w), int64(w.n))
	s.note(Event{Kind: OpWgDone, Obj: unsafe.Pointer(w), Val: int64(w.n)})
}

func WgWait(w *WaitGroupState) {
	s := active
	s.cur.lastAddr = nil
	s.point(OpWgWait, unsafe.Pointer(w))
	s.note(Event{Kind: OpWgWait, Obj: unsafe.Pointer(w)})
}

// ---- Mutex ----

func MuLock(m *MutexState) {
	s := active
	s.cur.lastAddr = nil
	s.point(OpLock, unsafe.Pointer(m))
	m.held, m.owner = true, s.cur.ID
	s.setVal(unsafe.Pointer(m), int64(s.cur.ID+1))
	s.note(Event{Kind: OpLock, Obj: unsafe.Pointer(m)})
}

func MuTryLock(m *MutexState) bool {
	s := active
	s.cur.lastAddr = nil
	s.point(OpCAS, unsafe.Pointer(m))
	if m.held {
		return false
	}
	m.held, m.owner = true, s.cur.ID
	s.setVal(unsafe.Pointer(m), int64(s.cur.ID+1))
	return true
}

func MuUnlock(m *MutexState) {
	s := active
	s.cur.lastAddr = nil
	s.point(OpUnlock, unsafe.Pointer(m))
	m.held = false
	s.setVal(unsafe.Pointer(m), 0)
	s.note(Event{Kind: OpUnlock, Obj: unsafe.Pointer(m)})
}

func MuRLock(m *MutexState) {
	s := active
	s.cur.lastAddr = nil
	s.point(OpRLock, unsafe.Pointer(m))
	m.readers++
	s.setVal(unsafe.Pointer(m), int64(-m.readers))
	s.note(Event{Kind: OpRLock, Obj: unsafe.Pointer(m)})
}

func MuRUnlock(m *MutexState) {
	s := active
	s.cur.lastAddr = nil
	s.point(OpRUnlock, unsafe.Pointer(m))
	m.readers--
	s.setVal(unsafe.Pointer(m), int64(-m.readers))
	s.note(Event{Kind: OpRUnlock, Obj: unsafe.Pointer(m)})
}

// Point is a generic scheduling point for operations the shims perform themselves (typed atomic
// values whose content the scheduler need not track): kind is OpLoad for reads, OpStore for writes.
func Point(kind OpKind, obj unsafe.Pointer) {
	s := active
	if s == nil {
		return
	}
	if kind == OpLoad {
		// not a spin candidate the scheduler can reason about (value unknown): plain point
		s.cur.lastAddr = nil
		s.point(kind, obj)
		s.note(Event{Kind: kind, Obj: obj})
		return
	}
	s.cur.lastAddr = nil
	s.point(kind, obj)
	s.wrote(obj)
	s.note(Event{Kind: kind, Obj: obj})
}

// ---- condition variables ----

// CondState: the threads blocked in Wait, in arrival order (Go wakes the earliest waiter first).
type CondState struct {
	waiting map[int]bool
	order   []int
}

// CondEnlist registers the running thread as a waiter (before it releases the lock, as sync.Cond does).
func CondEnlist(c *CondState) {
	s := active
	if c.waiting == nil {
		c.waiting = map[int]bool{}
	}
	c.waiting[s.cur.ID] = true
	c.order = append(c.order, s.cur.ID)
}

// CondBlock parks the running thread until it has been signalled.
func CondBlock(c *CondState) {
	s := active
	s.cur.lastAddr = nil
	s.point(OpCondWait, unsafe.Pointer(c))
	s.note(Event{Kind: OpCondWait, Obj: unsafe.Pointer(c)})
}

// CondWake wakes one (all = false) or every waiter.
func CondWake(c *CondState, all bool) {
	s := active
	s.cur.lastAddr = nil
	s.point(OpCondSignal, unsafe.Pointer(c))
	for len(c.order) > 0 {
		id := c.order[0]
		c.order = c.order[1:]
		if c.waiting[id] {
			delete(c.waiting, id)
			if !all {
				break
			}
		}
	}
	s.wrote(unsafe.Pointer(c))
	s.setVal(unsafe.Pointer(c), int64(len(c.waiting)))
	s.note(Event{Kind: OpCondSignal, Obj: unsafe.Pointer(c), Val: int64(len(c.waiting))})
}
