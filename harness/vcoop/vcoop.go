// Package vcoop: controlled cooperative scheduler (prototype).
package vcoop

import (
	"fmt"
	"runtime"
	realatomic "sync/atomic"
	"unsafe"
)

type OpKind int

const (
	OpStart OpKind = iota
	OpLoad
	OpStore
	OpCAS
	OpSwap
	OpWgDone
	OpWgWait
	OpStream
	OpFault
	OpExit
)

var kindNames = []string{"start", "load", "store", "cas", "swap", "wgdone", "wgwait", "stream", "fault", "exit"}

func (k OpKind) String() string { return kindNames[k] }

type Thread struct {
	ID       int
	wake     chan struct{}
	kind     OpKind
	obj      unsafe.Pointer
	done     bool
	spinning bool
	lastAddr unsafe.Pointer
	lastSite uintptr
	lastEp   uint64
	respins  int
	Phase    string
}

type PendOp struct {
	Thread int
	Kind   OpKind
	Obj    unsafe.Pointer
}

type PointRec struct {
	Enabled        int
	Chosen         int
	RunningEnabled bool
	Thread         int
	Kind           OpKind
	Pend           []PendOp     // pending ops of the enabled threads, canonical order
	SleepBefore    map[int]bool // threads asleep at this state
}

func Independent(a, b PendOp) bool {
	if a.Thread == b.Thread {
		return false
	}
	if a.Kind == OpStart || b.Kind == OpStart {
		return true
	}
	if a.Obj != b.Obj {
		return true
	}
	return a.Kind == OpLoad && b.Kind == OpLoad
}

type Abort struct{ Reason string }

type Sched struct {
	Threads  []*Thread
	cur      *Thread
	Prefix   []int
	Points   []PointRec
	epoch    map[unsafe.Pointer]uint64
	Events   []string
	Trace    bool
	Aborted  *Abort
	Faults   map[string]bool // fault keys to fire: "site#threadID"
	Horizon  int
	mainDone chan struct{}
	UseSleep  bool
	SleepInit map[int]bool // sleep set holding right after the prefix
	sleep     map[int]bool
	// hooks
	OnEvent func(t *Thread, kind OpKind, obj unsafe.Pointer, detail string)
}

var active *Sched

func Active() *Sched { return active }

func New(prefix []int) *Sched {
	s := &Sched{Prefix: prefix, epoch: map[unsafe.Pointer]uint64{}, Horizon: 100000, Faults: map[string]bool{}}
	t := &Thread{ID: 0, wake: make(chan struct{}, 1)}
	s.Threads = []*Thread{t}
	s.cur = t
	return s
}

// Run executes body as thread 0 under the scheduler.
func (s *Sched) Run(body func()) (ab *Abort) {
	active = s
	defer func() { active = nil }()
	defer func() {
		if r := recover(); r != nil {
			if a, ok := r.(*Abort); ok {
				ab = a
				return
			}
			panic(r)
		}
	}()
	body()
	// let any remaining threads finish
	s.Threads[0].done = true
	for {
		if !s.anyLive() {
			break
		}
		s.switchFrom(s.Threads[0], true)
	}
	return s.Aborted
}

func (s *Sched) anyLive() bool {
	for _, t := range s.Threads {
		if !t.done {
			return true
		}
	}
	return false
}

func (s *Sched) Cur() *Thread { return s.cur }

func (s *Sched) enabled(t *Thread) bool {
	if t.done {
		return false
	}
	if t.kind == OpWgWait {
		return (*WaitGroupState)(t.obj).n == 0
	}
	return true
}

type WaitGroupState struct{ n int }

// point: thread t announces pending op and lets the scheduler choose who runs.
func (s *Sched) point(kind OpKind, obj unsafe.Pointer) {
	t := s.cur
	t.kind, t.obj = kind, obj
	s.switchFrom(t, false)
}

func (s *Sched) switchFrom(t *Thread, exiting bool) {
	if len(s.Points) > s.Horizon {
		s.abort("horizon")
	}
	// enabled set in canonical order
	var en []*Thread
	var spin []*Thread
	if !exiting && s.enabled(t) {
		if t.spinning {
			spin = append(spin, t)
		} else {
			en = append(en, t)
		}
	}
	runningEnabled := len(en) == 1
	for _, x := range s.Threads {
		if x == t || !s.enabled(x) {
			continue
		}
		if x.spinning {
			spin = append(spin, x)
		} else {
			en = append(en, x)
		}
	}
	if len(en) == 0 {
		if len(spin) > 0 {
			// only spinners: let them re-check; detect livelock
			for _, x := range spin {
				x.respins++
				if x.respins > 3 {
					s.abort(fmt.Sprintf("livelock: thread %d spins forever", x.ID))
				}
			}
			en = spin
			runningEnabled = false
		} else if s.anyLive() {
			s.abort("deadlock")
		} else {
			return
		}
	}
	idx := 0
	n := len(s.Points)
	var pend []PendOp
	var sleepBefore map[int]bool
	if s.UseSleep {
		for _, x := range en {
			pend = append(pend, PendOp{x.ID, x.kind, x.obj})
		}
	}
	if n < len(s.Prefix) {
		idx = s.Prefix[n]
		if idx >= len(en) {
			panic(fmt.Sprintf("replay divergence at point %d: choice %d of %d", n, idx, len(en)))
		}
		if s.UseSleep && n == len(s.Prefix)-1 {
			s.sleep = s.SleepInit
		}
	} else if s.UseSleep {
		sleepBefore = s.sleep
		idx = -1
		for i, x := range en {
			if !s.sleep[x.ID] {
				idx = i
				break
			}
		}
		if idx < 0 {
			s.abort("sleep-blocked")
		}
		// update sleep: keep only those independent with chosen
		ns := map[int]bool{}
		for i, x := range en {
			if s.sleep[x.ID] && Independent(pend[i], pend[idx]) {
				ns[x.ID] = true
			}
		}
		s.sleep = ns
	}
	nxt := en[idx]
	s.Points = append(s.Points, PointRec{Enabled: len(en), Chosen: idx, RunningEnabled: runningEnabled, Thread: nxt.ID, Kind: nxt.kind, Pend: pend, SleepBefore: sleepBefore})
	if nxt == t {
		return
	}
	s.cur = nxt
	nxt.wake <- struct{}{}
	if exiting && t.ID != 0 {
		return
	}
	<-t.wake
	if s.Aborted != nil {
		if t.ID == 0 {
			panic(s.Aborted)
		}
		select {} // leaked on purpose
	}
}

func (s *Sched) abort(reason string) {
	s.Aborted = &Abort{Reason: reason}
	// wake main if parked so Run can return; other goroutines stay parked (leaked)
	if s.cur.ID != 0 {
		m := s.Threads[0]
		s.cur = m
		m.wake <- struct{}{}
		select {} // leaked on purpose
	}
	panic(s.Aborted)
}

func (s *Sched) note(kind OpKind, obj unsafe.Pointer, detail string) {
	if s.OnEvent != nil {
		s.OnEvent(s.cur, kind, obj, detail)
	}
}

// ---- API used by instrumented code ----

func Go(f func()) {
	s := active
	if s == nil {
		go f()
		return
	}
	t := &Thread{ID: len(s.Threads), wake: make(chan struct{}, 1), kind: OpStart}
	s.Threads = append(s.Threads, t)
	go func() {
		<-t.wake
		if s.Aborted != nil {
			return
		}
		s.note(OpStart, nil, "")
		f()
		t.done = true
		s.note(OpExit, nil, "")
		s.switchFrom(t, true)
	}()
}

func Yield() {
	if active == nil {
		runtime.Gosched()
	}
}

type InjectedFault struct{ Site string }

func (f *InjectedFault) Error() string { return "injected fault at " + f.Site }

func FaultPoint(site string) {
	s := active
	if s == nil {
		return
	}
	key := fmt.Sprintf("%s#%d", site, s.cur.ID)
	if s.Faults[key] {
		s.note(OpFault, nil, site)
		panic(&InjectedFault{site})
	}
}

// StreamOp is called by the monitored bitstream wrapper before each operation.
func StreamOp(obj unsafe.Pointer, detail string) {
	s := active
	if s == nil {
		return
	}
	s.cur.lastAddr = nil
	s.point(OpStream, obj)
	s.note(OpStream, obj, detail)
	key := fmt.Sprintf("stream:%s#%d", detail, s.cur.ID)
	if s.Faults[key] {
		s.note(OpFault, obj, detail)
		panic(&InjectedFault{key})
	}
}

func callerPC() uintptr {
	var pcs [1]uintptr
	runtime.Callers(3, pcs[:])
	return pcs[0]
}

func LoadInt32(p *int32) int32 {
	s := active
	if s == nil {
		return realatomic.LoadInt32(p)
	}
	t := s.cur
	addr := unsafe.Pointer(p)
	site := callerPC()
	if t.ID != 0 && t.lastAddr == addr && t.lastSite == site && t.lastEp == s.epoch[addr] {
		t.spinning = true
	}
	s.point(OpLoad, addr)
	v := *p
	t.lastAddr, t.lastSite, t.lastEp = addr, site, s.epoch[addr]
	t.spinning = false
	s.note(OpLoad, addr, fmt.Sprint(v))
	return v
}

func (s *Sched) wrote(addr unsafe.Pointer) {
	s.epoch[addr]++
	for _, x := range s.Threads {
		if x.spinning && x.lastAddr == addr {
			x.spinning = false
			x.respins = 0
		}
	}
}

func StoreInt32(p *int32, v int32) {
	s := active
	if s == nil {
		realatomic.StoreInt32(p, v)
		return
	}
	s.cur.lastAddr = nil
	s.point(OpStore, unsafe.Pointer(p))
	*p = v
	s.wrote(unsafe.Pointer(p))
	s.note(OpStore, unsafe.Pointer(p), fmt.Sprint(v))
}

func CompareAndSwapInt32(p *int32, old, nw int32) bool {
	s := active
	if s == nil {
		return realatomic.CompareAndSwapInt32(p, old, nw)
	}
	s.cur.lastAddr = nil
	s.point(OpCAS, unsafe.Pointer(p))
	ok := *p == old
	if ok {
		*p = nw
		s.wrote(unsafe.Pointer(p))
	}
	s.note(OpCAS, unsafe.Pointer(p), fmt.Sprint(old, "->", nw, ok))
	return ok
}

func SwapInt32(p *int32, nw int32) int32 {
	s := active
	if s == nil {
		return realatomic.SwapInt32(p, nw)
	}
	s.cur.lastAddr = nil
	s.point(OpSwap, unsafe.Pointer(p))
	old := *p
	*p = nw
	s.wrote(unsafe.Pointer(p))
	s.note(OpSwap, unsafe.Pointer(p), fmt.Sprint(nw))
	return old
}

func WgAdd(w *WaitGroupState, n int) { w.n += n }

func WgDone(w *WaitGroupState) {
	s := active
	s.cur.lastAddr = nil
	s.point(OpWgDone, unsafe.Pointer(w))
	w.n--
	s.note(OpWgDone, unsafe.Pointer(w), fmt.Sprint(w.n))
}

func WgWait(w *WaitGroupState) {
	s := active
	s.cur.lastAddr = nil
	s.point(OpWgWait, unsafe.Pointer(w))
	s.note(OpWgWait, unsafe.Pointer(w), "")
}
