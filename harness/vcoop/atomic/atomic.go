// Package atomic mirrors the part of sync/atomic that CompressedStream.go (or a variant of it)
// may use; every operation is a scheduling point of the controlled scheduler.
package atomic

import (
	realatomic "sync/atomic"
	"unsafe"

	"github.com/flanglet/kanzi-go/v2/zverif/vcoop"
)

func LoadInt32(p *int32) int32                      { return vcoop.LoadInt32(p) }
func StoreInt32(p *int32, v int32)                  { vcoop.StoreInt32(p, v) }
func CompareAndSwapInt32(p *int32, o, n int32) bool { return vcoop.CompareAndSwapInt32(p, o, n) }
func SwapInt32(p *int32, n int32) int32             { return vcoop.SwapInt32(p, n) }
func AddInt32(p *int32, d int32) int32              { return vcoop.AddInt32(p, d) }
func LoadInt64(p *int64) int64                      { return vcoop.LoadInt64(p) }
func StoreInt64(p *int64, v int64)                  { vcoop.StoreInt64(p, v) }
func CompareAndSwapInt64(p *int64, o, n int64) bool { return vcoop.CompareAndSwapInt64(p, o, n) }
func SwapInt64(p *int64, n int64) int64             { return vcoop.SwapInt64(p, n) }
func AddInt64(p *int64, d int64) int64              { return vcoop.AddInt64(p, d) }

// Typed values (Go 1.19+ API)

type Int32 struct{ v int32 }

func (x *Int32) Load() int32                      { return vcoop.LoadInt32(&x.v) }
func (x *Int32) Store(v int32)                    { vcoop.StoreInt32(&x.v, v) }
func (x *Int32) Swap(n int32) int32               { return vcoop.SwapInt32(&x.v, n) }
func (x *Int32) CompareAndSwap(o, n int32) bool   { return vcoop.CompareAndSwapInt32(&x.v, o, n) }
func (x *Int32) Add(d int32) int32                { return vcoop.AddInt32(&x.v, d) }

type Int64 struct{ v int64 }

func (x *Int64) Load() int64                      { return vcoop.LoadInt64(&x.v) }
func (x *Int64) Store(v int64)                    { vcoop.StoreInt64(&x.v, v) }
func (x *Int64) Swap(n int64) int64               { return vcoop.SwapInt64(&x.v, n) }
func (x *Int64) CompareAndSwap(o, n int64) bool   { return vcoop.CompareAndSwapInt64(&x.v, o, n) }
func (x *Int64) Add(d int64) int64                { return vcoop.AddInt64(&x.v, d) }

type Bool struct{ v int32 }

func b2i(b bool) int32 {
	if b {
		return 1
	}
	return 0
}
func (x *Bool) Load() bool                    { return vcoop.LoadInt32(&x.v) != 0 }
func (x *Bool) Store(v bool)                  { vcoop.StoreInt32(&x.v, b2i(v)) }
func (x *Bool) Swap(n bool) bool              { return vcoop.SwapInt32(&x.v, b2i(n)) != 0 }
func (x *Bool) CompareAndSwap(o, n bool) bool { return vcoop.CompareAndSwapInt32(&x.v, b2i(o), b2i(n)) }

// ---- unsigned and pointer-sized values: mapped onto the signed primitives (same memory) ----

func i32(p *uint32) *int32 { return (*int32)(unsafe.Pointer(p)) }
func i64(p *uint64) *int64 { return (*int64)(unsafe.Pointer(p)) }

func LoadUint32(p *uint32) uint32                      { return uint32(vcoop.LoadInt32(i32(p))) }
func StoreUint32(p *uint32, v uint32)                  { vcoop.StoreInt32(i32(p), int32(v)) }
func CompareAndSwapUint32(p *uint32, o, n uint32) bool { return vcoop.CompareAndSwapInt32(i32(p), int32(o), int32(n)) }
func SwapUint32(p *uint32, n uint32) uint32            { return uint32(vcoop.SwapInt32(i32(p), int32(n))) }
func AddUint32(p *uint32, d uint32) uint32             { return uint32(vcoop.AddInt32(i32(p), int32(d))) }
func LoadUint64(p *uint64) uint64                      { return uint64(vcoop.LoadInt64(i64(p))) }
func StoreUint64(p *uint64, v uint64)                  { vcoop.StoreInt64(i64(p), int64(v)) }
func CompareAndSwapUint64(p *uint64, o, n uint64) bool { return vcoop.CompareAndSwapInt64(i64(p), int64(o), int64(n)) }
func SwapUint64(p *uint64, n uint64) uint64            { return uint64(vcoop.SwapInt64(i64(p), int64(n))) }
func AddUint64(p *uint64, d uint64) uint64             { return uint64(vcoop.AddInt64(i64(p), int64(d))) }

func LoadUintptr(p *uintptr) uintptr { return uintptr(LoadUint64((*uint64)(unsafe.Pointer(p)))) }
func StoreUintptr(p *uintptr, v uintptr) {
	StoreUint64((*uint64)(unsafe.Pointer(p)), uint64(v))
}
func CompareAndSwapUintptr(p *uintptr, o, n uintptr) bool {
	return CompareAndSwapUint64((*uint64)(unsafe.Pointer(p)), uint64(o), uint64(n))
}
func AddUintptr(p *uintptr, d uintptr) uintptr {
	return uintptr(AddUint64((*uint64)(unsafe.Pointer(p)), uint64(d)))
}

func LoadPointer(p *unsafe.Pointer) unsafe.Pointer {
	vcoop.Point(vcoop.OpLoad, unsafe.Pointer(p))
	return realatomic.LoadPointer(p)
}
func StorePointer(p *unsafe.Pointer, v unsafe.Pointer) {
	vcoop.Point(vcoop.OpStore, unsafe.Pointer(p))
	realatomic.StorePointer(p, v)
}
func SwapPointer(p *unsafe.Pointer, v unsafe.Pointer) unsafe.Pointer {
	vcoop.Point(vcoop.OpStore, unsafe.Pointer(p))
	return realatomic.SwapPointer(p, v)
}
func CompareAndSwapPointer(p *unsafe.Pointer, o, n unsafe.Pointer) bool {
	vcoop.Point(vcoop.OpStore, unsafe.Pointer(p))
	return realatomic.CompareAndSwapPointer(p, o, n)
}

type Uint32 struct{ v uint32 }

func (x *Uint32) Load() uint32                    { return LoadUint32(&x.v) }
func (x *Uint32) Store(v uint32)                  { StoreUint32(&x.v, v) }
func (x *Uint32) Swap(n uint32) uint32            { return SwapUint32(&x.v, n) }
func (x *Uint32) CompareAndSwap(o, n uint32) bool { return CompareAndSwapUint32(&x.v, o, n) }
func (x *Uint32) Add(d uint32) uint32             { return AddUint32(&x.v, d) }

type Uint64 struct{ v uint64 }

func (x *Uint64) Load() uint64                    { return LoadUint64(&x.v) }
func (x *Uint64) Store(v uint64)                  { StoreUint64(&x.v, v) }
func (x *Uint64) Swap(n uint64) uint64            { return SwapUint64(&x.v, n) }
func (x *Uint64) CompareAndSwap(o, n uint64) bool { return CompareAndSwapUint64(&x.v, o, n) }
func (x *Uint64) Add(d uint64) uint64             { return AddUint64(&x.v, d) }

type Uintptr struct{ v uintptr }

func (x *Uintptr) Load() uintptr                    { return LoadUintptr(&x.v) }
func (x *Uintptr) Store(v uintptr)                  { StoreUintptr(&x.v, v) }
func (x *Uintptr) CompareAndSwap(o, n uintptr) bool { return CompareAndSwapUintptr(&x.v, o, n) }
func (x *Uintptr) Add(d uintptr) uintptr            { return AddUintptr(&x.v, d) }

// Pointer and Value: the operation is a scheduling point, the content is handled by the real type
type Pointer[T any] struct{ p realatomic.Pointer[T] }

func (x *Pointer[T]) Load() *T {
	vcoop.Point(vcoop.OpLoad, unsafe.Pointer(x))
	return x.p.Load()
}
func (x *Pointer[T]) Store(v *T) {
	vcoop.Point(vcoop.OpStore, unsafe.Pointer(x))
	x.p.Store(v)
}
func (x *Pointer[T]) Swap(v *T) *T {
	vcoop.Point(vcoop.OpStore, unsafe.Pointer(x))
	return x.p.Swap(v)
}
func (x *Pointer[T]) CompareAndSwap(o, n *T) bool {
	vcoop.Point(vcoop.OpStore, unsafe.Pointer(x))
	return x.p.CompareAndSwap(o, n)
}

type Value struct{ v realatomic.Value }

func (x *Value) Load() any {
	vcoop.Point(vcoop.OpLoad, unsafe.Pointer(x))
	return x.v.Load()
}
func (x *Value) Store(v any) {
	vcoop.Point(vcoop.OpStore, unsafe.Pointer(x))
	x.v.Store(v)
}
func (x *Value) Swap(v any) any {
	vcoop.Point(vcoop.OpStore, unsafe.Pointer(x))
	return x.v.Swap(v)
}
func (x *Value) CompareAndSwap(o, n any) bool {
	vcoop.Point(vcoop.OpStore, unsafe.Pointer(x))
	return x.v.CompareAndSwap(o, n)
}
