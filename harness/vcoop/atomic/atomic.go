// Package atomic mirrors the part of sync/atomic that CompressedStream.go (or a variant of it)
// may use; every operation is a scheduling point of the controlled scheduler.
package atomic

import "github.com/flanglet/kanzi-go/v2/zverif/vcoop"

func LoadInt32(p *int32) int32                      { return vcoop.LoadInt32(p) }
func StoreInt32(p *int32, v int32)                  { vcoop.StoreInt32(p, v) }
func CompareAndSwapInt32(p *int32, o, n int32) bool { return vcoop.CompareAndSwapInt32(p, o, n) }
func SwapInt32(p *int32, n int32) int32             { return vcoop.SwapInt32(p, n) }
func AddInt32(p *int32, d int32) int32              { return vcoop.AddInt32(p, d) }
func LoadInt64(p *int64) int64                      { return vcoop.LoadInt64(p) }
func StoreInt64(p *int64, v int64)                  { vcoop.StoreInt64(p, v) }
func CompareAndSwapInt64(p *int64, o, n int64) bool { return vcoop.CompareAndSwapInt64(p, o, n) }
func SwapInt64(p *int64, n int64) int64             { return vcoop.SwapInt64(p, n) }
func AddInt64(p *int64, d int64) int64              { return vcoop.AddInt64(p, d) }

// Typed values (Go 1.19+ API)

type Int32 struct{ v int32 }

func (x *Int32) Load() int32                      { return vcoop.LoadInt32(&x.v) }
func (x *Int32) Store(v int32)                    { vcoop.StoreInt32(&x.v, v) }
func (x *Int32) Swap(n int32) int32               { return vcoop.SwapInt32(&x.v, n) }
func (x *Int32) CompareAndSwap(o, n int32) bool   { return vcoop.CompareAndSwapInt32(&x.v, o, n) }
func (x *Int32) Add(d int32) int32                { return vcoop.AddInt32(&x.v, d) }

type Int64 struct{ v int64 }

func (x *Int64) Load() int64                      { return vcoop.LoadInt64(&x.v) }
func (x *Int64) Store(v int64)                    { vcoop.StoreInt64(&x.v, v) }
func (x *Int64) Swap(n int64) int64               { return vcoop.SwapInt64(&x.v, n) }
func (x *Int64) CompareAndSwap(o, n int64) bool   { return vcoop.CompareAndSwapInt64(&x.v, o, n) }
func (x *Int64) Add(d int64) int64                { return vcoop.AddInt64(&x.v, d) }

type Bool struct{ v int32 }

func b2i(b bool) int32 {
	if b {
		return 1
	}
	return 0
}
func (x *Bool) Load() bool                    { return vcoop.LoadInt32(&x.v) != 0 }
func (x *Bool) Store(v bool)                  { vcoop.StoreInt32(&x.v, b2i(v)) }
func (x *Bool) Swap(n bool) bool              { return vcoop.SwapInt32(&x.v, b2i(n)) != 0 }
func (x *Bool) CompareAndSwap(o, n bool) bool { return vcoop.CompareAndSwapInt32(&x.v, b2i(o), b2i(n)) }
