package atomic

import "github.com/flanglet/kanzi-go/v2/zverif/vcoop"

func LoadInt32(p *int32) int32                       { return vcoop.LoadInt32(p) }
func StoreInt32(p *int32, v int32)                   { vcoop.StoreInt32(p, v) }
func CompareAndSwapInt32(p *int32, o, n int32) bool  { return vcoop.CompareAndSwapInt32(p, o, n) }
func SwapInt32(p *int32, n int32) int32              { return vcoop.SwapInt32(p, n) }
