package main

// C14 Bitstream writer and reader are exact mirrors for every operation sequence.
// E3: breadth-first search over operation sequences of the real DefaultOutputBitStream from a set
// of initial fill levels, against a bit-vector model. Every transition is validated on a fresh
// object (replay of the shortest path + the new op): return value, Written(), and - after Close -
// the complete byte image and a mirrored read-back through DefaultInputBitStream with Read()
// checked at every step. States are merged on (buffer size, closed, unflushed bits, content of the
// partially filled word): the only other implementation state is the unflushed buffer content,
// which the image check of each incoming transition has already validated.

import (
	"bytes"
	"fmt"

	"github.com/flanglet/kanzi-go/v2/bitstream"
)

type bsOp struct {
	K string `json:"k"` // bit | bits | array | close | written
	N int    `json:"n,omitempty"`
	V int    `json:"v,omitempty"` // value pattern: 0 zeros, 1 ones, 2 alternating, 3 dirty (bits above n set)
}

func (o bsOp) String() string { return fmt.Sprintf("%s(%d,%d)", o.K, o.N, o.V) }

func patBit(pat, i int) bool {
	switch pat {
	case 1, 3:
		return true
	case 2:
		return i%2 == 0
	case 4:
		return i%3 != 0
	}
	return false
}

type bsModel struct {
	bits   []bool
	closed bool
}

func (m *bsModel) image() []byte {
	out := make([]byte, (len(m.bits)+7)/8)
	for i, b := range m.bits {
		if b {
			out[i>>3] |= 0x80 >> uint(i&7)
		}
	}
	return out
}

type bsCase struct {
	Buf  uint   `json:"buffer"`
	Path []bsOp `json:"path"`
}

func (c bsCase) String() string { return fmt.Sprintf("%d|%v", c.Buf, c.Path) }

type bsState struct {
	key   string
	nbits int
}

// applyWrite applies op to the real stream and the model; returns a failure description.
func applyWrite(obs *bitstream.DefaultOutputBitStream, m *bsModel, op bsOp) (fail string) {
	panicked := false
	var pv any
	before := len(m.bits)
	var ret uint
	func() {
		defer func() {
			if r := recover(); r != nil {
				panicked, pv = true, r
			}
		}()
		switch op.K {
		case "bit":
			obs.WriteBit(op.V & 1)
		case "bits":
			var v uint64
			for i := 0; i < op.N; i++ {
				v <<= 1
				if patBit(op.V, i) {
					v |= 1
				}
			}
			if op.V == 3 && op.N < 64 {
				v |= ^uint64(0) << uint(op.N) // dirty high bits must be ignored
			}
			ret = obs.WriteBits(v, uint(op.N))
		case "array":
			buf := make([]byte, (op.N+7)/8+1)
			for i := 0; i < op.N; i++ {
				if patBit(op.V, i) {
					buf[i>>3] |= 0x80 >> uint(i&7)
				}
			}
			// bits of the last byte beyond N are set: they must not leak into the stream
			for i := op.N; i < len(buf)*8; i++ {
				buf[i>>3] |= 0x80 >> uint(i&7)
			}
			ret = obs.WriteArray(buf, uint(op.N))
		case "close":
			if err := obs.Close(); err != nil {
				fail = "Close returned " + err.Error()
			}
		}
	}()
	if fail != "" {
		return fail
	}
	if m.closed {
		if op.K == "close" {
			return ""
		}
		if op.K == "array" && op.N == 0 {
			return "" // nothing to write
		}
		if !panicked {
			return fmt.Sprintf("%s on a closed stream did not panic", op)
		}
		return ""
	}
	if op.K == "bits" && (op.N == 0 || op.N > 64) {
		if !panicked && ret != 0 {
			return fmt.Sprintf("%s: invalid count accepted and reported %d bits written", op, ret)
		}
		return ""
	}
	if panicked {
		return fmt.Sprintf("%s panicked on an open stream: %v", op, pv)
	}
	switch op.K {
	case "bit":
		m.bits = append(m.bits, op.V&1 == 1)
	case "bits", "array":
		for i := 0; i < op.N; i++ {
			m.bits = append(m.bits, patBit(op.V, i))
		}
		if int(ret) != op.N {
			return fmt.Sprintf("%s returned %d", op, ret)
		}
	case "close":
		m.closed = true
	}
	_ = before
	return ""
}

func runBsPath(c bsCase) (fl *Fail, st bsState) {
	sk := &memSink{}
	obs, err := bitstream.NewDefaultOutputBitStream(sk, c.Buf)
	if err != nil {
		return failf("harness", "%v", err), st
	}
	m := &bsModel{}
	for i, op := range c.Path {
		if f := applyWrite(obs, m, op); f != "" {
			return failf("write-op "+op.K, "step %d of %v (buffer %d): %s", i, c.Path, c.Buf, f), st
		}
		wantW := uint64(len(m.bits))
		if m.closed {
			// documented: after Close, Written() is the total number of bits written
		}
		if got := obs.Written(); got != wantW {
			return failf("written-counter after="+op.K, "step %d of %v (buffer %d): Written()=%d, model has %d bits", i, c.Path, c.Buf, got, wantW), st
		}
		if sk.Len()*8 > len(m.bits)+7 {
			return failf("sink-ahead-of-model", "step %d: sink has %d bytes, model %d bits", i, sk.Len(), len(m.bits)), st
		}
		if !bytes.Equal(sk.Bytes(), m.image()[:sk.Len()]) {
			return failf("flushed-bytes-wrong after="+op.K, "step %d of %v (buffer %d): flushed bytes differ from the model at %d", i, c.Path, c.Buf, firstDiff(sk.Bytes(), m.image()[:sk.Len()])), st
		}
	}
	// abstract state (before the validation close)
	unflushed := len(m.bits) - 8*sk.Len()
	pend := len(m.bits) % 64
	var ph uint64 = 1469598103934665603
	for _, b := range m.bits[len(m.bits)-pend:] {
		ph = ph*1099511628211 + 1
		if b {
			ph += 7
		}
	}
	st = bsState{key: fmt.Sprintf("%d|%v|%d|%x", c.Buf, m.closed, unflushed, ph), nbits: len(m.bits)}
	// validation: close and compare the whole image; sink must not change after the first close
	wasClosed := m.closed
	if err := obs.Close(); err != nil {
		return failf("close-error", "%v", err), st
	}
	if got := obs.Written(); got != uint64(len(m.bits)) {
		return failf("written-counter after=final-close", "%v (buffer %d): Written()=%d after Close, model has %d bits", c.Path, c.Buf, got, len(m.bits)), st
	}
	img := m.image()
	if !bytes.Equal(sk.Bytes(), img) {
		return failf("byte-image-wrong", "%v (buffer %d): image differs from the big-endian packing of the model at byte %d (sink %d bytes, model %d)", c.Path, c.Buf, firstDiff(sk.Bytes(), img), sk.Len(), len(img)), st
	}
	if wasClosed {
		// closed streams refuse operations without side effects: already checked op by op
	}
	n0 := sk.Len()
	obs.Close()
	if sk.Len() != n0 {
		return failf("close-not-idempotent", "second Close changed the sink"), st
	}
	// mirrored read-back
	ibs, _ := bitstream.NewDefaultInputBitStream(newSrc(sk.Bytes()), c.Buf)
	pos := 0
	for i, op := range c.Path {
		var fail string
		func() {
			defer func() {
				if r := recover(); r != nil {
					fail = fmt.Sprintf("read-back of %s panicked: %v", op, r)
				}
			}()
			switch op.K {
			case "bit":
				if pos >= len(m.bits) {
					return
				}
				if got := ibs.ReadBit() == 1; got != m.bits[pos] {
					fail = fmt.Sprintf("ReadBit at %d = %v", pos, got)
				}
				pos++
			case "bits":
				if op.N == 0 || op.N > 64 || pos+op.N > len(m.bits) {
					return
				}
				got := ibs.ReadBits(uint(op.N))
				var want uint64
				for j := 0; j < op.N; j++ {
					want <<= 1
					if m.bits[pos+j] {
						want |= 1
					}
				}
				if got != want {
					fail = fmt.Sprintf("ReadBits(%d) at %d = %#x want %#x", op.N, pos, got, want)
				}
				pos += op.N
			case "array":
				if pos+op.N > len(m.bits) {
					return
				}
				buf := make([]byte, (op.N+7)/8)
				if got := ibs.ReadArray(buf, uint(op.N)); int(got) != op.N {
					fail = fmt.Sprintf("ReadArray(%d) returned %d", op.N, got)
					return
				}
				for j := 0; j < op.N; j++ {
					if (buf[j>>3]>>(7-uint(j&7))&1 == 1) != m.bits[pos+j] {
						fail = fmt.Sprintf("ReadArray(%d) at %d: bit %d differs", op.N, pos, j)
						return
					}
				}
				pos += op.N
			}
		}()
		if fail != "" {
			return failf("read-mirror "+op.K, "step %d of %v (buffer %d): %s", i, c.Path, c.Buf, fail), st
		}
		if got := ibs.Read(); got != uint64(pos) {
			return failf("read-counter after="+op.K, "step %d of %v (buffer %d): Read()=%d, consumed %d bits", i, c.Path, c.Buf, got, pos), st
		}
	}
	ibs.Close()
	refused := false
	func() {
		defer func() {
			if recover() != nil {
				refused = true
			}
		}()
		ibs.ReadBits(8)
	}()
	if !refused {
		return failf("closed-reader-accepts-read", "ReadBits after Close did not panic"), st
	}
	return nil, st
}

func safeBsPath(cs bsCase) (fl *Fail, st bsState) {
	defer func() {
		if r := recover(); r != nil {
			fl = failf("panic@"+panicSite(), "panic escaped the harness frame: %v", r)
		}
	}()
	return runBsPath(cs)
}

var famBs = NewFamily("C14.path", func(c bsCase) (*Fail, bool) {
	f, _ := runBsPath(c)
	return f, len(c.Path) > 1
})

func init() {
	register("C14", "model_checking", func(c *Ctx) {
		c.Rule("explicit-state BFS over operation sequences of the real DefaultOutputBitStream against a []bool model: alphabet = WriteBit(0|1), WriteBits(v,n) for n in {0,1,2,7,8,9,31,32,33,63,64,65} with zero/ones/alternating/dirty values, WriteArray(k bits) for k in {0,1,7,8,9,63,64,65,255,256,257,1000, 8*(buf-8)+{-8,-1,0,1,8}}, Close; buffer sizes {1024,1032,2048}; initial fill levels p in {0,1,7,8,63,64} and 8*(buf-8)-q for q in {0,1,8,63,64,65,256}; depth 3 (quick) / 4 (thorough) from each initial state. Every transition is validated on a fresh object: return value, Written() at every step, flushed bytes, then Close -> whole byte image == big-endian packing, second Close changes nothing, and a mirrored read program through DefaultInputBitStream returns the model's values with Read() checked at every step; operations after Close must panic. states = distinct (buffer, closed, unflushed bits, content of the partial word); transitions = validated (state, op) pairs = traces replayed on the implementation")
		depth := pick(c, 3, 4)
		bufs := []uint{1024, 1032, 2048}
		type node struct {
			path []bsOp
			d    int
		}
		var mu = make(chan struct{}, 1)
		mu <- struct{}{}
		seen := map[string]bool{}
		var transitions int64
		frontier := []node{}
		for _, buf := range bufs {
			thr := 8 * (int(buf) - 8)
			var inits []int
			inits = append(inits, 0, 1, 7, 8, 63, 64)
			for _, q := range []int{0, 1, 8, 63, 64, 65, 256} {
				inits = append(inits, thr-q)
			}
			var alpha []bsOp
			alpha = append(alpha, bsOp{K: "bit", V: 0}, bsOp{K: "bit", V: 1})
			for _, n := range []int{0, 1, 2, 7, 8, 9, 31, 32, 33, 63, 64, 65} {
				for _, v := range []int{1, 2, 3} {
					if (n == 0 || n == 65) && v != 1 {
						continue
					}
					alpha = append(alpha, bsOp{K: "bits", N: n, V: v})
				}
			}
			for _, k := range []int{0, 1, 7, 8, 9, 63, 64, 65, 255, 256, 257, 1000, thr - 8, thr - 1, thr, thr + 1, thr + 8} {
				alpha = append(alpha, bsOp{K: "array", N: k, V: 4})
			}
			alpha = append(alpha, bsOp{K: "close"})
			// level by level
			frontier = frontier[:0]
			for _, p := range inits {
				path := []bsOp{}
				if p > 0 {
					path = append(path, bsOp{K: "array", N: p, V: 2})
				}
				frontier = append(frontier, node{path: path})
			}
			for d := 0; d <= depth && len(frontier) > 0; d++ {
				type res struct {
					n  node
					st bsState
					fl *Fail
				}
				results := make([]res, len(frontier))
				// validate every node of this level in parallel
				idx := make(chan int, len(frontier))
				for i := range frontier {
					idx <- i
				}
				close(idx)
				done := make(chan struct{})
				const W = 16
				for w := 0; w < W; w++ {
					go func() {
						for i := range idx {
							cs := bsCase{Buf: buf, Path: frontier[i].path}
							fl, st := safeBsPath(cs)
							results[i] = res{frontier[i], st, fl}
						}
						done <- struct{}{}
					}()
				}
				for w := 0; w < W; w++ {
					<-done
				}
				var next []node
				for _, r := range results {
					cs := bsCase{Buf: buf, Path: r.n.path}
					c.Count("C14|"+cs.String(), len(r.n.path) > 0)
					transitions++
					if r.fl != nil {
						c.Violate("C14.path", cs, r.fl)
						continue
					}
					if len(c.samples) < 6 && len(r.n.path) == depth {
						c.Sample(cs)
					}
					if seen[r.st.key] {
						continue
					}
					seen[r.st.key] = true
					if d == depth {
						continue
					}
					for _, op := range alpha {
						np := append(append([]bsOp{}, r.n.path...), op)
						next = append(next, node{path: np, d: d + 1})
					}
				}
				frontier = next
			}
		}
		<-mu
		c.AddStates(int64(len(seen)), transitions, transitions)
		c.Extra("bfs_depth", depth)
	})
}
