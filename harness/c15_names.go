package main

// C15 Codec names: case-insensitive, canonical, consistent end to end. Exhaustive over all case
// variants of every name, all chains up to length 3 (4 over a subset), and the full stream path.

import (
	"bytes"
	"fmt"
	"strings"

	"github.com/flanglet/kanzi-go/v2/entropy"
	"github.com/flanglet/kanzi-go/v2/transform"
)

type nameCase struct {
	Kind  string `json:"kind"` // "tcase" | "ecase" | "chain" | "stream" | "headerless"
	Name  string `json:"name"`
	Canon string `json:"canon,omitempty"`
	Other string `json:"other,omitempty"` // the other codec name for stream cases
	IsEnt bool   `json:"is_entropy,omitempty"`
}

func (n nameCase) String() string { return n.Kind + "|" + n.Name + "|" + n.Canon + "|" + n.Other }

func canonChain(s string) string {
	var out []string
	for _, t := range strings.Split(strings.ToUpper(s), "+") {
		if t != "NONE" {
			out = append(out, t)
		}
	}
	if len(out) == 0 {
		return "NONE"
	}
	return strings.Join(out, "+")
}

func spellings(s string) []string {
	alt := []rune(strings.ToLower(s))
	for i := range alt {
		if i%2 == 0 && alt[i] >= 'a' && alt[i] <= 'z' {
			alt[i] -= 32
		}
	}
	first := strings.ToUpper(s[:1]) + strings.ToLower(s[1:])
	return []string{strings.ToLower(s), string(alt), first}
}

func runName(n nameCase) (*Fail, bool) {
	switch n.Kind {
	case "tcase":
		want, err := transform.GetType(n.Canon)
		if err != nil {
			return failf("canonical-name-rejected "+n.Canon, "%v", err), true
		}
		got, err := transform.GetType(n.Name)
		if err != nil || got != want {
			return failf("transform-name-case "+n.Canon, "GetType(%q) = %d, %v; GetType(%q) = %d", n.Name, got, err, n.Canon, want), true
		}
		return nil, n.Name != n.Canon
	case "ecase":
		want, err := entropy.GetType(n.Canon)
		if err != nil {
			return failf("canonical-name-rejected "+n.Canon, "%v", err), true
		}
		got, err := entropy.GetType(n.Name)
		if err != nil || got != want {
			return failf("entropy-name-case "+n.Canon, "GetType(%q) = %d, %v; GetType(%q) = %d", n.Name, got, err, n.Canon, want), true
		}
		back, err := entropy.GetName(got)
		if err != nil || back != n.Canon {
			return failf("entropy-name-roundtrip "+n.Canon, "GetName(GetType(%q)) = %q, %v", n.Name, back, err), true
		}
		return nil, n.Name != n.Canon
	case "chain":
		ty, err := transform.GetType(n.Name)
		if err != nil {
			return failf("chain-rejected", "GetType(%q): %v", n.Name, err), true
		}
		back, err := transform.GetName(ty)
		if err != nil || back != n.Canon {
			return failf("chain-not-canonical", "GetName(GetType(%q)) = %q, %v; want %q", n.Name, back, err, n.Canon), true
		}
		// the numeric type itself must be the canonical chain's type (NONE elements removed)
		if cty, err := transform.GetType(n.Canon); err != nil || cty != ty {
			return failf("chain-type-differs-from-canonical", "GetType(%q) = %#x but GetType(%q) = %#x (%v)", n.Name, ty, n.Canon, cty, err), true
		}
		return nil, true
	case "stream", "headerless":
		// data on which the variants differ
		data := shape("text", 70000)
		if strings.Contains(strings.ToUpper(n.Name+n.Other), "TPAQ") {
			data = shape("text", 40000)
		}
		mk := func(name string) Params {
			p := Params{Transform: name, Entropy: n.Other, Block: 65536, Jobs: 2, Checksum: 32, Hint: -1, Headerless: n.Kind == "headerless"}
			if n.IsEnt {
				p.Transform, p.Entropy = n.Other, name
			}
			return p
		}
		pc, pv := mk(n.Canon), mk(n.Name)
		ref, where, err := compress(data, pc)
		if err != nil {
			return failf("canonical-spelling-fails "+n.Canon, "%s: %v", where, err), true
		}
		got, where, err := compress(data, pv)
		if err != nil {
			return failf("spelling-rejected-or-fails "+strings.ToLower(n.Canon), "writing with %q: %s: %v", n.Name, where, err), true
		}
		cls := "name=" + strings.ToLower(n.Canon)
		if !bytes.Equal(got, ref) {
			// which variant was really used? decode tells
			res := decompress(got, 1, &pc, 65536)
			detail := "decodes correctly"
			if res.Err != nil {
				detail = "and does not decode: " + res.Err.Error()
			} else if !bytes.Equal(res.Out, data) {
				detail = fmt.Sprintf("and decodes to DIFFERENT bytes without error (first difference at %d)", firstDiff(res.Out, data))
			}
			return failf("spelling-changes-stream "+cls, "stream written with %q differs from the one written with %q (%d vs %d bytes, first difference %d) %s", n.Name, n.Canon, len(got), len(ref), firstDiff(got, ref), detail), true
		}
		// header type <-> variant actually used: decode (for headerless: reader told the canonical name,
		// and reader told the variant spelling)
		for _, rp := range []Params{pc, pv} {
			rp := rp
			res := decompress(got, 2, &rp, 65536)
			if res.Err != nil || !bytes.Equal(res.Out, data) {
				return failf("variant-mismatch-on-decode "+cls, "stream written as %q, reader told %q/%q: err=%v, %d bytes, first difference %d", n.Name, rp.Transform, rp.Entropy, res.Err, len(res.Out), firstDiff(res.Out, data)), true
			}
		}
		return nil, n.Name != n.Canon
	}
	return failf("harness", "unknown kind"), false
}

var famName = NewFamily("C15.name", runName)

func init() {
	register("C15", "exploration", func(c *Ctx) {
		c.Rule("exhaustive: all 2^len letter-case variants of the 19 transform and 9 entropy names (GetType equality, GetName round trip); all chains of length <= 3 over the 19 tokens (upper and lower case; length 4 over a 12-token subset) -> GetName(GetType(x)) is the canonical chain with NONE removed; through the real Writer/Reader: every name x {lower, alternating, capitalised} spelling, as header and headerless streams, on data where the codec variants differ; every transform at every one of the 8 positions of a full 8-stage chain -> the stream is byte-identical to the canonical spelling's and decodes to the input when the reader is told either spelling. Non-trivial = spelling differs from the canonical one")
		famName.Each(c, 0, func(emit func(nameCase)) {
			variants := func(name string, f func(v string)) {
				n := len(name)
				for m := 0; m < 1<<uint(n); m++ {
					b := []byte(strings.ToLower(name))
					for i := 0; i < n; i++ {
						if m>>uint(i)&1 == 1 && b[i] >= 'a' && b[i] <= 'z' {
							b[i] -= 32
						}
					}
					f(string(b))
				}
			}
			for _, t := range allTransforms {
				variants(t, func(v string) { emit(nameCase{Kind: "tcase", Name: v, Canon: t}) })
			}
			for _, e := range allEntropies {
				variants(e, func(v string) { emit(nameCase{Kind: "ecase", Name: v, Canon: e}) })
			}
			toks := allTransforms
			for _, a := range toks {
				emit(nameCase{Kind: "chain", Name: a, Canon: canonChain(a)})
				emit(nameCase{Kind: "chain", Name: strings.ToLower(a), Canon: canonChain(a)})
				for _, b := range toks {
					s := a + "+" + b
					emit(nameCase{Kind: "chain", Name: s, Canon: canonChain(s)})
					emit(nameCase{Kind: "chain", Name: strings.ToLower(s), Canon: canonChain(s)})
					for _, d := range toks {
						s3 := s + "+" + d
						emit(nameCase{Kind: "chain", Name: s3, Canon: canonChain(s3)})
						emit(nameCase{Kind: "chain", Name: spellings(s3)[1], Canon: canonChain(s3)})
					}
				}
			}
			sub := []string{"NONE", "BWT", "LZ", "LZX", "ROLZ", "ROLZX", "RLT", "ZRLT", "TEXT", "UTF", "PACK", "DNA"}
			for _, a := range sub {
				for _, b := range sub {
					for _, d := range sub {
						for _, e := range sub {
							s := a + "+" + b + "+" + d + "+" + e
							emit(nameCase{Kind: "chain", Name: s, Canon: canonChain(s)})
						}
					}
				}
			}
			// 5..8 stages incl. NONE elements in between
			for _, s := range []string{"NONE+LZ+NONE+RLT+NONE", "TEXT+UTF+EXE+PACK+MM+LZX+RLT+ZRLT", "none+none+none+none+none+none+none+lz", "RLT+NONE+NONE+NONE+NONE+NONE+NONE+ZRLT"} {
				emit(nameCase{Kind: "chain", Name: s, Canon: canonChain(s)})
			}
			// full stream path
			for _, kind := range []string{"stream", "headerless"} {
				for _, t := range allTransforms {
					others := []string{"NONE"}
					if t == "TEXT" || t == "RLT" {
						others = []string{"NONE", "HUFFMAN", "CM", "TPAQX"} // these transforms look at the entropy name
					}
					for _, o := range others {
						for _, sp := range spellings(t) {
							emit(nameCase{Kind: kind, Name: sp, Canon: t, Other: o})
						}
					}
				}
				for _, e := range allEntropies {
					others := []string{"NONE"}
					if e == "TPAQ" || e == "TPAQX" || e == "HUFFMAN" || e == "ANS0" {
						others = []string{"NONE", "TEXT", "RLT"}
					}
					for _, o := range others {
						for _, sp := range spellings(e) {
							emit(nameCase{Kind: kind, Name: sp, Canon: e, Other: o, IsEnt: true})
						}
					}
				}
				// chains of exactly 8 effective transforms with every transform at every position (the
				// 48-bit packed type has 8 slots; variant selection looks for names inside the chain string)
				fill := []string{"PACK", "MM", "EXE", "DNA", "UTF", "ZRLT", "RLT"}
				for _, t := range allTransforms[1:] {
					for pos := 0; pos < 8; pos++ {
						var ch []string
						fi := 0
						for k := 0; k < 8; k++ {
							if k == pos {
								ch = append(ch, t)
								continue
							}
							f := fill[fi%len(fill)]
							fi++
							if f == t {
								f = "LZP"
							}
							ch = append(ch, f)
						}
						chain := strings.Join(ch, "+")
						emit(nameCase{Kind: kind, Name: strings.ToLower(chain), Canon: chain, Other: "NONE"})
					}
				}
				// chains in mixed case, and chains with NONE elements (canonical form drops them)
				for _, ch := range []string{"text+rolzx", "Text+Utf+Bwt+Rank+Zrlt", "rlt+lzp+rolz", "NONE+LZ", "BWT+NONE+ZRLT", "text+none", "none+none+rlt+none+lzp", "TEXT+UTF+NONE+NONE+NONE+NONE+NONE+LZX"} {
					emit(nameCase{Kind: kind, Name: ch, Canon: canonChain(ch), Other: "ANS0"})
				}
			}
		})
	})
}
