package main

// C13 Transforms: exact inverse pairs, in bounds, clean decline. Each transform is driven
// through the same entry point the compressor uses (transform.New -> a sequence of one), with the
// context keys and buffer sizes of encodingTask.encode / decodingTask.decode.

import (
	"bytes"
	"encoding/binary"
	"fmt"

	"github.com/flanglet/kanzi-go/v2/internal"
	"github.com/flanglet/kanzi-go/v2/transform"
)

type trCase struct {
	T       string `json:"transform"`
	Entropy string `json:"entropy"`
	Shape   string `json:"shape"`
	Len     int    `json:"len"`
	Hint    int    `json:"hint"` // -1 absent, -2 magic-derived (as encode() does), >=0 explicit DataType
	// exe header forgery: overwrite Width bytes at Off with Val (little or big endian)
	Forge *forge `json:"forge,omitempty"`
}

type forge struct {
	Off   int    `json:"off"`
	Width int    `json:"width"`
	Val   uint64 `json:"val"`
	BE    bool   `json:"be,omitempty"`
}

func (t trCase) String() string {
	return fmt.Sprintf("%s|%s|%s|%d|%d|%+v", t.T, t.Entropy, t.Shape, t.Len, t.Hint, t.Forge)
}

func exeShape(name string, n int) []byte {
	name = name[4:]
	full := exeShapeFull(name, max(n, 1024))
	return full[:n]
}

func exeShapeFull(name string, n int) []byte {
	out := genExe(n, 77, name == "elf64le")
	switch name {
	case "elf64le":
		// a well-formed little section table: 3 entries at 0x100, entry size 0x40
		binary.LittleEndian.PutUint64(out[0x28:], 0x100)
		binary.LittleEndian.PutUint16(out[0x3A:], 0x40)
		binary.LittleEndian.PutUint16(out[0x3C:], 3)
		for i := 0; i < 3; i++ {
			e := 0x100 + i*0x40
			binary.LittleEndian.PutUint32(out[e+4:], 1)
			binary.LittleEndian.PutUint64(out[e+0x18:], uint64(0x200+i*0x300))
			binary.LittleEndian.PutUint64(out[e+0x20:], 0x300)
		}
	case "elf32le", "elf32be", "elf64be":
		copy(out, []byte{0x7F, 'E', 'L', 'F', 1, 1, 1, 0})
		var bo binary.ByteOrder = binary.LittleEndian
		if name != "elf32le" {
			out[5] = 2
			bo = binary.BigEndian
		}
		if name == "elf64be" {
			out[4] = 2
			bo.PutUint64(out[0x28:], 0x100)
			bo.PutUint16(out[0x3A:], 0x40)
			bo.PutUint16(out[0x3C:], 2)
			for i := 0; i < 2; i++ {
				e := 0x100 + i*0x40
				bo.PutUint32(out[e+4:], 1)
				bo.PutUint64(out[e+0x18:], uint64(0x200+i*0x300))
				bo.PutUint64(out[e+0x20:], 0x300)
			}
		} else {
			bo.PutUint32(out[0x20:], 0x100)
			bo.PutUint16(out[0x2E:], 0x28)
			bo.PutUint16(out[0x30:], 2)
			for i := 0; i < 2; i++ {
				e := 0x100 + i*0x28
				bo.PutUint32(out[e+4:], 1)
				bo.PutUint32(out[e+0x10:], uint32(0x200+i*0x300))
				bo.PutUint32(out[e+0x14:], 0x300)
			}
		}
		bo.PutUint16(out[18:], 0x3E)
	case "pe":
		copy(out, []byte{'M', 'Z', 0x90, 0})
		binary.LittleEndian.PutUint32(out[60:], 128)
		copy(out[128:], []byte{'P', 'E', 0, 0, 0x64, 0x86})
		binary.LittleEndian.PutUint32(out[128+44:], 0x200)
		binary.LittleEndian.PutUint32(out[128+28:], 0x600)
	case "macho64", "macho32":
		is64 := name == "macho64"
		if is64 {
			binary.BigEndian.PutUint32(out, 0xFEEDFACF)
		} else {
			binary.BigEndian.PutUint32(out, 0xFEEDFACE)
		}
		binary.LittleEndian.PutUint32(out[4:], 0x01000007)
		binary.LittleEndian.PutUint32(out[12:], 2) // MH_EXECUTE
		binary.LittleEndian.PutUint32(out[0x10:], 2)
		pos := 0x1C
		segHdr := 0x38
		seg := uint32(1)
		if is64 {
			pos, segHdr, seg = 0x20, 0x48, 0x19
		}
		// command 1: a segment that is not __TEXT, command 2: __TEXT with a __text section
		binary.LittleEndian.PutUint32(out[pos:], seg)
		binary.LittleEndian.PutUint32(out[pos+4:], 0x50)
		copy(out[pos+8:], "__PAGEZERO\x00\x00\x00\x00\x00\x00")
		pos += 0x50
		binary.LittleEndian.PutUint32(out[pos:], seg)
		binary.LittleEndian.PutUint32(out[pos+4:], 0x98)
		copy(out[pos+8:], "__TEXT\x00\x00\x00\x00\x00\x00\x00\x00\x00\x00")
		sec := pos + segHdr
		copy(out[sec:], "__text\x00\x00\x00\x00\x00\x00\x00\x00\x00\x00")
		if is64 {
			binary.LittleEndian.PutUint64(out[sec+0x30:], 0x400)
		} else {
			binary.LittleEndian.PutUint32(out[sec+0x2C:], 0x400)
		}
		binary.LittleEndian.PutUint32(out[sec+0x28:], 0x800)
	}
	return out
}

var exeShapes = []string{"hdr-elf64le", "hdr-elf32le", "hdr-elf64be", "hdr-elf32be", "hdr-pe", "hdr-macho64", "hdr-macho32"}

func (t trCase) data() []byte {
	for _, e := range exeShapes {
		if t.Shape == e {
			d := exeShape(e, t.Len)
			if f := t.Forge; f != nil && f.Off+f.Width <= len(d) {
				for i := 0; i < f.Width; i++ {
					sh := uint(8 * i)
					if f.BE {
						sh = uint(8 * (f.Width - 1 - i))
					}
					d[f.Off+i] = byte(f.Val >> sh)
				}
			}
			return d
		}
	}
	return shape(t.Shape, t.Len)
}

// magicHint reproduces what encodingTask.encode stores in the context before the transform runs.
func magicHint(data []byte) (internal.DataType, bool) {
	magic := internal.GetMagicType(data)
	switch {
	case internal.IsDataCompressed(magic):
		return internal.DT_BIN, true
	case internal.IsDataMultimedia(magic):
		return internal.DT_MULTIMEDIA, true
	case internal.IsDataExecutable(magic):
		return internal.DT_EXE, true
	}
	return 0, false
}

func legalBlockSize(n int) int {
	b := (n + 15) &^ 15
	if b < 1024 {
		b = 1024
	}
	return b
}

func (t trCase) fwdCtx(data []byte, blk int) map[string]any {
	ctx := map[string]any{"transform": t.T, "entropy": t.Entropy, "blockSize": uint(blk), "jobs": uint(1), "checksum": uint(0), "headerless": false,
		"bsVersion": uint(6), "size": uint(len(data))}
	switch {
	case t.Hint == -2:
		if dt, ok := magicHint(data); ok {
			ctx["dataType"] = dt
		}
	case t.Hint >= 0:
		ctx["dataType"] = internal.DataType(t.Hint)
	}
	return ctx
}

type trOutcome struct {
	declined bool
	hintLeft int // dataType left in the context (-1 none)
}

func runTransformFull(t trCase) (*Fail, bool, trOutcome) {
	var oc trOutcome
	oc.hintLeft = -1
	data := t.data()
	n := len(data)
	ty, err := transform.GetType(t.T)
	if err != nil {
		return failf("harness", "%v", err), false, oc
	}
	blk := legalBlockSize(n)
	cls := fmt.Sprintf("transform=%s shape=%s", t.T, t.Shape)
	if t.Forge != nil {
		cls = fmt.Sprintf("transform=%s forged-exe-header=%s", t.T, t.Shape)
	}
	ctx := t.fwdCtx(data, blk)
	tr, err := transform.New(&ctx, ty)
	if err != nil {
		return failf("transform-construction "+cls, "%v", err), true, oc
	}
	req := tr.MaxEncodedLen(n)
	// as in encode(): the input buffer is at least as long as the required size
	srcBuf := make([]byte, max(n, req))
	copy(srcBuf, data)
	dst := make([]byte, req)
	var written uint
	if f := func() (fl *Fail) {
		defer func() {
			if r := recover(); r != nil {
				fl = failf("forward-faults "+cls+" @"+panicSite(), "%s: Forward panicked: %v", t, r)
			}
		}()
		_, written, err = tr.Forward(srcBuf[0:n], dst)
		return nil
	}(); f != nil {
		return f, true, oc
	}
	if err != nil {
		return failf("forward-sequence-error "+cls, "%s: %v", t, err), true, oc
	}
	if int(written) > req {
		return failf("output-exceeds-advertised-size "+cls, "%s: wrote %d, MaxEncodedLen(%d) = %d", t, written, n, req), true, oc
	}
	if v, ok := ctx["dataType"]; ok {
		oc.hintLeft = int(v.(internal.DataType))
	}
	skip := tr.SkipFlags()
	oc.declined = skip == 0xFF
	if oc.declined {
		if int(written) != n || !bytes.Equal(dst[:written], data) {
			return failf("decline-modified-input "+cls, "%s: the transform declined but the block handed to the next stage differs from the input (len %d vs %d, first difference %d)", t, written, n, firstDiff(dst[:written], data)), true, oc
		}
	}
	// inverse, with the context and buffers of decode()
	ctx2 := map[string]any{"transform": t.T, "entropy": t.Entropy, "blockSize": uint(blk), "jobs": uint(1), "bsVersion": uint(6), "size": uint(written)}
	tr2, err := transform.New(&ctx2, ty)
	if err != nil {
		return failf("transform-construction "+cls, "%v", err), true, oc
	}
	tr2.SetSkipFlags(skip)
	blockLength := blk + max(512, blk>>4)
	inBuf := make([]byte, max(blockLength, int(written)+512))
	copy(inBuf, dst[:written])
	out := make([]byte, blockLength)
	var got uint
	if f := func() (fl *Fail) {
		defer func() {
			if r := recover(); r != nil {
				fl = failf("inverse-faults "+cls+" @"+panicSite(), "%s: Inverse of the transform's own output panicked: %v", t, r)
			}
		}()
		_, got, err = tr2.Inverse(inBuf[0:written], out)
		return nil
	}(); f != nil {
		return f, true, oc
	}
	if err != nil {
		return failf("inverse-error "+cls, "%s: Inverse of the transform's own output failed: %v", t, err), true, oc
	}
	if int(got) != n || !bytes.Equal(out[:got], data) {
		return failf("inverse-mismatch "+cls, "%s: restored %d bytes, want %d; first difference %d", t, got, n, firstDiff(out[:min(int(got), len(out))], data)), true, oc
	}
	return nil, !oc.declined, oc
}

var famTr = NewFamily("C13.transform", func(t trCase) (*Fail, bool) {
	f, nt, _ := runTransformFull(t)
	return f, nt
})

func init() {
	register("C13", "exploration", func(c *Ctx) {
		c.Rule("complete product: 19 transforms (ROLZ/ROLZX, LZ/LZX/LZP, RANK/MTFT, PACK/DNA variants; TEXT and RLT with a fast and a slow entropy name) x shapes (detector-triggering and codec-boundary shapes) x lengths {1,2,15,16,63,64,255,256,257,1023,1024,4095,65536,200000 (+1 MiB, 4 MiB+16 for BWT/BWTS in thorough)}, plus a 3 MiB block dominated by one symbol (17 MiB in thorough) x dataType hints the pipeline can really leave for that block {absent, magic-derived, every value left in the context by another transform that declined on the same block}; plus forged executable headers: for 7 ELF/PE/Mach-O layouts every 2/4/8-byte field in the first 160 bytes set to each of 10 boundary values (EXE and the level presets' chains). Driven through transform.New with encode()/decode()'s context keys and buffer sizes. Oracle: no panic in either direction; written <= MaxEncodedLen; decline => the block passed on equals the input; Inverse into a buffer of exactly the decoder's size restores the block. Non-trivial = the transform did not decline")
		lens := []int{1, 2, 3, 15, 16, 63, 64, 255, 256, 257, 1023, 1024, 4095, 4097, 65535, 65536, 65537, 200000}
		if c.Thorough() {
			lens = append(lens, 1<<20)
		}
		type tv struct{ t, e string }
		var tvs []tv
		for _, t := range allTransforms {
			tvs = append(tvs, tv{t, "NONE"})
			if t == "TEXT" || t == "RLT" {
				tvs = append(tvs, tv{t, "TPAQ"}, tv{t, "TPAQX"})
			}
		}
		shapes := shapeNames
		// pass 1: hints absent and magic-derived; collect hints left by transforms that declined
		type key struct {
			shape string
			n     int
		}
		left := map[key]map[int]bool{}
		var leftMu = make(chan struct{}, 1)
		leftMu <- struct{}{}
		fam1 := NewFamily("C13.transform.pass1", func(t trCase) (*Fail, bool) {
			f, nt, oc := runTransformFull(t)
			if oc.declined && oc.hintLeft > 0 {
				<-leftMu
				k := key{t.Shape, t.Len}
				if left[k] == nil {
					left[k] = map[int]bool{}
				}
				left[k][oc.hintLeft] = true
				leftMu <- struct{}{}
			}
			return f, nt
		})
		fam1.Each(c, 0, func(emit func(trCase)) {
			// blocks of 3 MiB dominated by one symbol (counts >= 2^21: frequency headers use their longest
			// varint form), and 3 MiB of text
			for _, v := range tvs {
				if v.e != "NONE" {
					continue
				}
				emit(trCase{T: v.t, Entropy: v.e, Shape: "dominant", Len: 3 << 20, Hint: -1})
				if c.Thorough() {
					emit(trCase{T: v.t, Entropy: v.e, Shape: "text", Len: 3<<20 + 5, Hint: -1})
					emit(trCase{T: v.t, Entropy: v.e, Shape: "dominant", Len: 17<<20 + 1, Hint: -1})
				}
			}
			for _, v := range tvs {
				for _, sh := range shapes {
					for _, n := range lens {
						emit(trCase{T: v.t, Entropy: v.e, Shape: sh, Len: n, Hint: -1})
						if _, ok := magicHint(shape(sh, min(n, 64))); ok && n >= 4 {
							emit(trCase{T: v.t, Entropy: v.e, Shape: sh, Len: n, Hint: -2})
						}
					}
				}
				for _, sh := range exeShapes {
					for _, n := range []int{1024, 4096, 65536} {
						emit(trCase{T: v.t, Entropy: v.e, Shape: sh, Len: n, Hint: -1})
						emit(trCase{T: v.t, Entropy: v.e, Shape: sh, Len: n, Hint: -2})
					}
				}
			}
			if c.Thorough() {
				for _, t := range []string{"BWT", "BWTS"} {
					for _, sh := range []string{"text", "dna", "random", "runs", "const"} {
						emit(trCase{T: t, Entropy: "NONE", Shape: sh, Len: 4<<20 + 16, Hint: -1})
					}
				}
			}
		})
		nl := 0
		for _, m := range left {
			nl += len(m)
		}
		c.Extra("hints_left_by_declining_transforms", nl)
		// pass 2: every transform with every hint that a declining predecessor left on that block
		famTr.Each(c, 0, func(emit func(trCase)) {
			for k, hs := range left {
				for h := range hs {
					for _, v := range tvs {
						emit(trCase{T: v.t, Entropy: v.e, Shape: k.shape, Len: k.n, Hint: h})
					}
				}
			}
			// truncated executable headers: every block length from 16 to 0x1C0
			for _, sh := range exeShapes {
				for n := 16; n <= 0x1C0; n++ {
					emit(trCase{T: "EXE", Entropy: "NONE", Shape: sh, Len: n, Hint: -2})
				}
			}
			// forged executable headers
			vals := []uint64{0, 1, 0x3F, 0x7FFF, 0xFFFF, 0x7FFFFFFF, 0x80000000, 0xFFFFFFFF, 0x7FFFFFFFFFFFFFFF, 0x8000000000000000, 0xFFFFFFFFFFFFFFFF}
			for _, sh := range exeShapes {
				n := 4096
				for _, w := range []int{2, 4, 8} {
					for off := 0; off+w <= 0x1A0; off += 2 {
						if off < 8 && sh != "hdr-pe" {
							continue // keep the magic and class/endianness bytes (other layouts are separate shapes)
						}
						for _, v := range vals {
							if w < 8 && v>>uint(8*w) != 0 {
								continue
							}
							for _, be := range []bool{false, true} {
								if be != (sh == "hdr-elf64be" || sh == "hdr-elf32be") {
									continue
								}
								for _, t := range pick(c, []string{"EXE"}, []string{"EXE", "TEXT+UTF+EXE+PACK+MM+ROLZ", "EXE+RLT+TEXT+UTF+DNA"}) {
									emit(trCase{T: t, Entropy: "NONE", Shape: sh, Len: n, Hint: -2, Forge: &forge{Off: off, Width: w, Val: v, BE: be}})
								}
							}
						}
					}
				}
			}
		})
	})
}
