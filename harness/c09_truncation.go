package main

// C09 Truncated streams are always detected: every strict prefix of a valid stream makes reading
// end with an error. Every cut position of every seed stream is tried (exhaustive for the small
// seeds); larger seeds are cut around every structural boundary and on a stride.

import (
	"fmt"
	"time"
)

type truncSeed struct {
	P      Params `json:"params"`
	Shape  string `json:"shape"`
	Len    int    `json:"len"`
	Jobs   uint   `json:"dec_jobs"`
	Stride int    `json:"stride"` // 1 = every cut; >1 = every boundary +-16 and every stride-th byte
}

func (t truncSeed) String() string {
	return fmt.Sprintf("%s|%s|%d|%d|%d", t.P, t.Shape, t.Len, t.Jobs, t.Stride)
}

var truncCuts int64

// One case = one seed stream; all its cuts are enumerated inside (cuts are counted separately).
func runTrunc(ctx *Ctx) func(t truncSeed) (*Fail, bool) {
	return func(t truncSeed) (*Fail, bool) {
		data := shape(t.Shape, t.Len)
		stream, where, err := compress(data, t.P)
		if err != nil {
			return failf("harness-compress "+t.P.Transform+"/"+t.P.Entropy, "%s: %v", where, err), false
		}
		pp := t.P
		full := decompress(stream, t.Jobs, &pp, 4096)
		if full.Err != nil || !full.EOF || string(full.Out) != string(data) {
			return failf("seed-does-not-roundtrip "+t.P.Transform+"/"+t.P.Entropy, "seed %s does not decode: %v", t, full.Err), false
		}
		cuts := map[int]bool{}
		if t.Stride <= 1 {
			for i := 0; i < len(stream); i++ {
				cuts[i] = true
			}
		} else {
			var marks []int
			if !t.P.Headerless {
				if ks, err := parseKanzi(stream); err == nil {
					for _, f := range ks.Hdr.Off {
						marks = append(marks, f[0]/8)
					}
					for _, b := range ks.Blocks {
						marks = append(marks, b.StartBit/8, b.PayloadBit/8, b.DataBit/8, (b.PayloadBit+b.PayloadBits)/8)
					}
					marks = append(marks, ks.EndBit/8)
				}
			}
			marks = append(marks, 0, len(stream)-1)
			for _, m := range marks {
				for d := -16; d <= 16; d++ {
					if m+d >= 0 && m+d < len(stream) {
						cuts[m+d] = true
					}
				}
			}
			for i := 0; i < len(stream); i += t.Stride {
				cuts[i] = true
			}
		}
		n := 0
		for cut := range cuts {
			n++
			ctx.Count(fmt.Sprintf("cut|%s|%d", t, cut), true)
			var res readResult
			if t.Jobs == 1 {
				res = decompress(stream[:cut], t.Jobs, &pp, 1500)
			} else {
				res = decompressSmallBuf(stream[:cut], t.Jobs, &pp, 1500)
			}
			cls := fmt.Sprintf("%s/%s ck=%d jobs=%s", t.P.Transform, t.P.Entropy, t.P.Checksum, jobsClass(t.Jobs))
			if !isPrefix(res.Out, data) {
				ctx.AddExtra("cuts_tried", int64(n))
				return failf("truncated-stream-yields-wrong-bytes "+cls, "%s cut at %d of %d: %d bytes returned are not a prefix of the original (first difference %d), err=%v", t, cut, len(stream), len(res.Out), firstDiff(res.Out, data[:min(len(res.Out), len(data))]), res.Err), true
			}
			if res.Err == nil {
				ctx.AddExtra("cuts_tried", int64(n))
				return failf("truncation-not-detected "+cls, "%s cut at %d of %d: reader ended with clean EOF=%v after %d of %d bytes, no error", t, cut, len(stream), res.EOF, len(res.Out), len(data)), true
			}
		}
		ctx.AddExtra("cuts_tried", int64(n))
		return nil, true
	}
}

func init() {
	var fam *Family[truncSeed]
	var cref *Ctx
	fam = NewFamily("C09.seed", func(t truncSeed) (*Fail, bool) {
		if cref == nil {
			cref = newCtx("C09", "quick", "fault_enumeration")
		}
		return runTrunc(cref)(t)
	})
	register("C09", "fault_enumeration", func(c *Ctx) {
		cref = c
		c.Rule("seed streams = every entropy codec and every transform (with HUFFMAN) x checksum {0,32,64} x 0..5 blocks of 1 KiB (empty stream, last block full or partial), with and without the size hint in the header, x headerless; for each seed EVERY cut position 0..len-1 is decoded with jobs 1,2,3 (coverage.cuts_tried counts them); larger seeds (64 KiB - 1 MiB) are cut within +-16 bytes of every header field and block boundary and at every stride-th byte (declared non-exhaustive). Oracle: a non-EOF error is returned before any io.EOF and the delivered bytes are a prefix of the original. One evaluation = one (seed, cut) decode (plus one per seed)")
		const B = 1024
		fam.Timeout = 120 * time.Minute // one case = every cut of one seed
		fam.Each(c, 0, func(emit func(truncSeed)) {
			type codec struct{ t, e string }
			var codecs []codec
			for _, e := range allEntropies {
				codecs = append(codecs, codec{"NONE", e})
			}
			for _, t := range allTransforms[1:] {
				codecs = append(codecs, codec{t, "HUFFMAN"})
			}
			for _, cd := range codecs {
				slow := cd.e == "TPAQ" || cd.e == "TPAQX" || cd.e == "CM"
				for _, ck := range []uint{0, 32, 64} {
					for _, n := range []int{0, 1, 700, B, 2*B + 300, 3 * B, 5*B - 1} {
						if !c.Thorough() && (n == B || n == 5*B-1 || (ck == 64 && n != 2*B+300)) {
							continue
						}
						if slow && !c.Thorough() && (n > 2*B+300 || ck == 64) {
							continue
						}
						for _, j := range []uint{1, 2, 3} {
							if !c.Thorough() && j == 2 {
								continue
							}
							// checksum-32 seeds carry the exact size hint in the header (as the CLI always does),
							// the others no hint
							h := int64(-1)
							if ck == 32 {
								h = int64(n)
							}
							emit(truncSeed{P: Params{cd.t, cd.e, B, 2, ck, h, false, false}, Shape: "text", Len: n, Jobs: j, Stride: 1})
						}
					}
				}
			}
			// headerless and random (stored) data
			for _, n := range []int{0, 700, 3 * B} {
				for _, j := range []uint{1, 3} {
					emit(truncSeed{P: Params{"LZ", "HUFFMAN", B, 2, 32, -1, true, false}, Shape: "text", Len: n, Jobs: j, Stride: 1})
					// headerless with the original size given to the reader (it must still insist on the end marker)
					emit(truncSeed{P: Params{"LZ", "HUFFMAN", B, 2, 32, int64(n), true, false}, Shape: "text", Len: n, Jobs: j, Stride: 1})
					emit(truncSeed{P: Params{"NONE", "NONE", B, 2, 0, int64(n), true, false}, Shape: "text", Len: n, Jobs: j, Stride: 1})
					emit(truncSeed{P: Params{"NONE", "NONE", B, 2, 0, int64(n), false, false}, Shape: "random", Len: n, Jobs: j, Stride: 1})
				}
			}
			// larger seeds, boundary-focused
			big := []codec{{"NONE", "NONE"}, {"LZ", "HUFFMAN"}, {"BWT", "ANS0"}, {"TEXT+UTF+BWT+RANK+ZRLT", "ANS0"}}
			for _, cd := range big {
				for _, cfg := range pick(c, [][2]int{{65536, 200000}}, [][2]int{{65536, 200000}, {262144, 1 << 20}, {4096, 70000}}) {
					for _, j := range []uint{1, 3} {
						emit(truncSeed{P: Params{cd.t, cd.e, uint(cfg[0]), 2, 32, -1, false, false}, Shape: "text", Len: cfg[1], Jobs: j, Stride: pick(c, 997, 97)})
					}
				}
			}
		})
	})
}
