module instrument

go 1.23
