// instrument: rewrites a Go source file so that sync, sync/atomic, runtime.Gosched and go
// statements go through the vcoop controlled scheduler.
package main

import (
	"bytes"
	"fmt"
	"go/ast"
	"go/format"
	"go/parser"
	"go/token"
	"os"
	"strconv"
)

const base = "github.com/flanglet/kanzi-go/v2/zverif/vcoop"

func main() {
	in, out := os.Args[1], os.Args[2]
	fset := token.NewFileSet()
	f, err := parser.ParseFile(fset, in, nil, parser.ParseComments)
	if err != nil {
		fmt.Fprintln(os.Stderr, "parse:", err)
		os.Exit(3)
	}
	hasVcoop := false
	for _, imp := range f.Imports {
		p, _ := strconv.Unquote(imp.Path.Value)
		switch p {
		case "sync/atomic":
			imp.Path.Value = strconv.Quote(base + "/atomic")
		case "sync":
			imp.Path.Value = strconv.Quote(base + "/sync")
		case base:
			hasVcoop = true
		}
	}
	nGo, nYield, nFault := 0, 0, 0
	nChan := 0 // constructs the scheduler cannot control (channels, select)
	// rewrite go statements and runtime.Gosched
	var rewriteBlock func(list []ast.Stmt) []ast.Stmt
	rewriteStmt := func(s ast.Stmt) ast.Stmt {
		g, ok := s.(*ast.GoStmt)
		if !ok {
			return s
		}
		nGo++
		// { _f := fun; _a0 := arg0; ...; vcoop.Go(func(){ _f(_a0,...) }) }
		blk := &ast.BlockStmt{}
		call := g.Call
		var fun ast.Expr = call.Fun
		if _, isLit := call.Fun.(*ast.FuncLit); !isLit {
			blk.List = append(blk.List, &ast.AssignStmt{Lhs: []ast.Expr{ast.NewIdent("_vf")}, Tok: token.DEFINE, Rhs: []ast.Expr{call.Fun}})
			fun = ast.NewIdent("_vf")
		}
		var args []ast.Expr
		for i, a := range call.Args {
			name := fmt.Sprintf("_va%d", i)
			blk.List = append(blk.List, &ast.AssignStmt{Lhs: []ast.Expr{ast.NewIdent(name)}, Tok: token.DEFINE, Rhs: []ast.Expr{a}})
			args = append(args, ast.NewIdent(name))
		}
		inner := &ast.CallExpr{Fun: fun, Args: args, Ellipsis: call.Ellipsis}
		lit := &ast.FuncLit{Type: &ast.FuncType{Params: &ast.FieldList{}}, Body: &ast.BlockStmt{List: []ast.Stmt{&ast.ExprStmt{X: inner}}}}
		blk.List = append(blk.List, &ast.ExprStmt{X: &ast.CallExpr{Fun: &ast.SelectorExpr{X: ast.NewIdent("vcoop"), Sel: ast.NewIdent("Go")}, Args: []ast.Expr{lit}}})
		return blk
	}
	rewriteBlock = func(list []ast.Stmt) []ast.Stmt {
		for i, s := range list {
			list[i] = rewriteStmt(s)
		}
		return list
	}
	ast.Inspect(f, func(n ast.Node) bool {
		switch x := n.(type) {
		case *ast.BlockStmt:
			x.List = rewriteBlock(x.List)
		case *ast.CaseClause:
			x.Body = rewriteBlock(x.Body)
		case *ast.CommClause:
			x.Body = rewriteBlock(x.Body)
		case *ast.ChanType, *ast.SelectStmt, *ast.SendStmt:
			nChan++
		case *ast.UnaryExpr:
			if x.Op == token.ARROW {
				nChan++
			}
		case *ast.CallExpr:
			if sel, ok := x.Fun.(*ast.SelectorExpr); ok {
				if id, ok := sel.X.(*ast.Ident); ok && id.Name == "time" && (sel.Sel.Name == "Sleep" || sel.Sel.Name == "After" || sel.Sel.Name == "NewTimer" || sel.Sel.Name == "Tick") {
					nChan++
				}
			}
			if sel, ok := x.Fun.(*ast.SelectorExpr); ok {
				if id, ok := sel.X.(*ast.Ident); ok && id.Name == "runtime" && sel.Sel.Name == "Gosched" {
					id.Name = "vcoop"
					sel.Sel.Name = "Yield"
					nYield++
				}
			}
		}
		return true
	})
	// fault point after the leading defer statement(s) of the encode/decode methods
	for _, d := range f.Decls {
		fd, ok := d.(*ast.FuncDecl)
		if !ok || fd.Recv == nil || fd.Body == nil || (fd.Name.Name != "encode" && fd.Name.Name != "decode") {
			continue
		}
		for i, s := range fd.Body.List {
			if _, ok := s.(*ast.DeferStmt); ok {
				// a fault can only be raised once ALL the leading deferred handlers are registered:
				// skip over the run of consecutive defer statements (e.g. a recover handler and a
				// separate hand-off function)
				for i+1 < len(fd.Body.List) {
					if _, more := fd.Body.List[i+1].(*ast.DeferStmt); !more {
						break
					}
					i++
				}
				fp := &ast.ExprStmt{X: &ast.CallExpr{Fun: &ast.SelectorExpr{X: ast.NewIdent("vcoop"), Sel: ast.NewIdent("FaultPoint")}, Args: []ast.Expr{&ast.BasicLit{Kind: token.STRING, Value: strconv.Quote(fd.Name.Name + ".compute")}}}}
				rest := append([]ast.Stmt{fp}, fd.Body.List[i+1:]...)
				fd.Body.List = append(fd.Body.List[:i+1:i+1], rest...)
				nFault++
				break
			}
		}
	}
	if !hasVcoop {
		// add import
		for _, d := range f.Decls {
			if gd, ok := d.(*ast.GenDecl); ok && gd.Tok == token.IMPORT {
				gd.Specs = append(gd.Specs, &ast.ImportSpec{Path: &ast.BasicLit{Kind: token.STRING, Value: strconv.Quote(base)}})
				break
			}
		}
	}
	var buf bytes.Buffer
	if err := format.Node(&buf, fset, f); err != nil {
		fmt.Fprintln(os.Stderr, "print:", err)
		os.Exit(3)
	}
	// runtime import may now be unused: keep it alive
	buf.WriteString("\nvar _ = runtime.NumCPU\n")
	os.WriteFile(out, buf.Bytes(), 0644)
	fmt.Printf("instrumented %s: go=%d yield=%d fault=%d uncontrolled=%d\n", in, nGo, nYield, nFault, nChan)
	if len(os.Args) > 3 {
		os.WriteFile(os.Args[3], []byte(fmt.Sprintf("go=%d yield=%d fault=%d uncontrolled=%d\n", nGo, nYield, nFault, nChan)), 0644)
	}
}
