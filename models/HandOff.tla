----------------------------- MODULE HandOff -----------------------------
(* Block hand-off protocol of kanzi-go's v2/io/CompressedStream.go (one batch of N block tasks),
   written at the granularity of the controlled scheduler of /verif/harness/vcoop: every action
   below is exactly one scheduling point of the instrumented code (an atomic load / store / CAS on
   the shared block counter, an operation on the shared bitstream, WaitGroup.Done / Wait).

   Kind = "enc": encodingTask.encode          Kind = "dec": decodingTask.decode
     spin: Load(token) until k-1 | -1           spin: Load(token) until k-1 | -1
     3 stream ops (lw, length, array)           3 stream ops (lw, length [0 = end marker], array)
     deferred: err ? Store(-1)                  CAS(k-1,k)              (token passed BEFORE decoding)
                   : CAS(k-1,k)                 decode (may fail: bad payload)
     wg.Done                                    deferred: err or nothing decoded ? Store(-1)
                                                          : Load(token); if = k-1 then Store(k)
                                                wg.Done
   The environment (which task fails where, which block is the end marker, which payload is bad)
   is chosen in Init and never changes, so one run covers every placement.

   The variable `last` records the event of the step that led to a state (thread, kind, value):
   with Record = TRUE the dumped state graph is self-describing and implementation traces can be
   walked through it; with Record = FALSE it stays constant (used for the larger N).            *)
EXTENDS Integers, Sequences, FiniteSets, TLC

CONSTANTS N,        \* tasks in the batch (block ids 1..N, token starts at 0)
          Kind,     \* "enc" | "dec"
          Record,   \* TRUE: keep the last event in the state
          Faults    \* TRUE: environment may inject one failure / end marker / bad payload

Tasks == 1..N
CANCEL == -1

VARIABLES token,     \* shared block counter (relative to the first id of the batch); -1 = cancel
          pc,        \* pc[k]: control state of task k
          wg,        \* WaitGroup counter
          mainpc,    \* "wait" | "after"
          env,       \* [ft |-> failing task (0 none), fs |-> step 0..3 (0 = before the wait),
                     \*   eos |-> task that reads the end marker (0 none), bad |-> task whose payload is bad]
          held,      \* set of tasks that have started and not finished using the shared stream
          acq,       \* sequence of tasks in the order they first touched the shared stream
          cancelled, \* TRUE once -1 has been stored
          lateacq,   \* a task left its spin loop with the token (not the cancel value) after a cancel had been stored
          last

vars == <<token, pc, wg, mainpc, env, held, acq, cancelled, lateacq, last>>

Ev(k, kind, v) == IF Record THEN <<k, kind, v>> ELSE <<>>

Envs == IF Faults
        THEN { [ft |-> 0, fs |-> 0, eos |-> 0, bad |-> 0] }
             \cup { [ft |-> t, fs |-> s, eos |-> 0, bad |-> 0] : t \in Tasks, s \in 0..3 }
             \cup (IF Kind = "dec"
                   THEN { [ft |-> 0, fs |-> 0, eos |-> e, bad |-> 0] : e \in Tasks }
                        \cup { [ft |-> 0, fs |-> 0, eos |-> 0, bad |-> b] : b \in Tasks }
                        \cup UNION { { [ft |-> 0, fs |-> 0, eos |-> e, bad |-> b] : b \in 1..(e-1) } : e \in Tasks }
                   ELSE {})
        ELSE { [ft |-> 0, fs |-> 0, eos |-> 0, bad |-> 0] }

Init == /\ token = 0
        /\ pc = [k \in Tasks |-> "new"]
        /\ wg = N
        /\ mainpc = "wait"
        /\ env \in Envs
        /\ held = {}
        /\ acq = <<>>
        /\ cancelled = FALSE
        /\ lateacq = FALSE
        /\ last = Ev(0, "init", 0)

FailsAt(k, s) == env.ft = k /\ env.fs = s

\* ---- task steps ----

Start(k) == /\ pc[k] = "new"
            /\ IF FailsAt(k, 0)
               THEN /\ pc' = [pc EXCEPT ![k] = "derr"]
                    /\ last' = Ev(k, "startfault", 0)
               ELSE /\ pc' = [pc EXCEPT ![k] = "spin"]
                    /\ last' = Ev(k, "start", 0)
            /\ UNCHANGED <<token, wg, mainpc, env, held, acq, cancelled, lateacq>>

\* a load that finds neither k-1 nor -1 changes nothing (spinning): it is a stuttering step
Load(k) == /\ pc[k] = "spin"
           /\ token \in {k - 1, CANCEL}
           /\ pc' = [pc EXCEPT ![k] = IF token = CANCEL
                                      THEN (IF Kind = "enc" THEN "dok" ELSE "dcan")
                                      ELSE "io1"]
           /\ last' = Ev(k, "load", token)
           /\ lateacq' = (lateacq \/ (cancelled /\ token # CANCEL))
           /\ UNCHANGED <<token, wg, mainpc, env, held, acq, cancelled>>

NextIo(k, i) == IF i = 1 THEN "io2"
                ELSE IF i = 2 THEN (IF Kind = "dec" /\ env.eos = k THEN "dcan" ELSE "io3")
                ELSE (IF Kind = "enc" THEN "dok" ELSE "pub")

Stream(k, i) == /\ pc[k] = (IF i = 1 THEN "io1" ELSE IF i = 2 THEN "io2" ELSE "io3")
                /\ IF FailsAt(k, i)
                   THEN /\ pc' = [pc EXCEPT ![k] = "derr"]
                        /\ last' = Ev(k, "streamfault", i)
                   ELSE /\ pc' = [pc EXCEPT ![k] = NextIo(k, i)]
                        /\ last' = Ev(k, "stream", i)
                /\ held' = held \cup {k}
                /\ acq' = IF k \in held THEN acq ELSE Append(acq, k)
                /\ UNCHANGED <<token, wg, mainpc, env, cancelled, lateacq>>

\* pass the token: CAS(k-1 -> k); encoder in its deferred function, decoder right after its reads
Cas(k) == /\ pc[k] = (IF Kind = "enc" THEN "dok" ELSE "pub")
          /\ token' = IF token = k - 1 THEN k ELSE token
          /\ pc' = [pc EXCEPT ![k] = IF Kind = "enc" THEN "wd" ELSE "work"]
          /\ held' = held \ {k}
          /\ last' = Ev(k, "cas", token')
          /\ UNCHANGED <<wg, mainpc, env, acq, cancelled, lateacq>>

\* store the cancel value: failure, end marker, or a decoder task that was itself cancelled
Cancel(k) == /\ \/ pc[k] \in {"derr", "dcan"}
                \/ (pc[k] = "work" /\ env.bad = k)
             /\ token' = CANCEL
             /\ cancelled' = TRUE
             /\ pc' = [pc EXCEPT ![k] = "wd"]
             /\ held' = held \ {k}
             /\ last' = Ev(k, "store", CANCEL)
             /\ UNCHANGED <<wg, mainpc, env, acq, lateacq>>

\* decoder, deferred function on success: Load(token); if it still equals k-1, Store(k)
DeferLoad(k) == /\ Kind = "dec"
                /\ pc[k] = "work" /\ env.bad # k
                /\ pc' = [pc EXCEPT ![k] = IF token = k - 1 THEN "dst" ELSE "wd"]
                /\ last' = Ev(k, "load", token)
                /\ UNCHANGED <<token, wg, mainpc, env, held, acq, cancelled, lateacq>>

DeferStore(k) == /\ pc[k] = "dst"
                 /\ token' = k
                 /\ pc' = [pc EXCEPT ![k] = "wd"]
                 /\ last' = Ev(k, "store", k)
                 /\ UNCHANGED <<wg, mainpc, env, held, acq, cancelled, lateacq>>

WgDone(k) == /\ pc[k] = "wd"
             /\ wg' = wg - 1
             /\ pc' = [pc EXCEPT ![k] = "done"]
             /\ last' = Ev(k, "wgdone", wg')
             /\ UNCHANGED <<token, mainpc, env, held, acq, cancelled, lateacq>>

Task(k) == Start(k) \/ Load(k) \/ Stream(k, 1) \/ Stream(k, 2) \/ Stream(k, 3) \/ Cas(k)
           \/ Cancel(k) \/ DeferLoad(k) \/ DeferStore(k) \/ WgDone(k)

\* ---- calling goroutine ----
Wait == /\ mainpc = "wait" /\ wg = 0
        /\ mainpc' = "after"
        /\ last' = Ev(0, "wgwait", 0)
        /\ UNCHANGED <<token, pc, wg, env, held, acq, cancelled, lateacq>>

AllDone == mainpc = "after" /\ \A k \in Tasks : pc[k] = "done"

Next == (\E k \in Tasks : Task(k)) \/ Wait \/ (AllDone /\ UNCHANGED vars)

Spec == Init /\ [][Next]_vars /\ \A k \in Tasks : WF_vars(Task(k)) /\ WF_vars(Wait)

\* the same behaviours without fairness (state-graph dump: no liveness checking needed)
DumpSpec == Init /\ [][Next]_vars

\* ---- properties (C07) ----
TypeOK == /\ token \in (0..N) \cup {CANCEL}
          /\ wg \in 0..N
          /\ mainpc \in {"wait", "after"}

\* (1) the shared stream is used by one task at a time, and not by the caller while tasks live
MutualExclusion == Cardinality(held) <= 1 /\ (mainpc = "after" => held = {})

\* (2) tasks reach the shared stream in increasing block order
InOrder == \A i \in 1..Len(acq) : \A j \in 1..Len(acq) : i < j => acq[i] < acq[j]

\* (4) after a cancel no task that had not yet acquired the stream acquires it
CancelIsFinal == ~lateacq

\* a cancel is never overwritten
CancelSticks == [][token = CANCEL => token' = CANCEL]_vars

\* the caller resumes only when every task has finished
JoinIsComplete == mainpc = "after" => \A k \in Tasks : pc[k] = "done"

\* without any failure the token ends at N (every block was handed on)
CleanRunPassesAll == (AllDone /\ env.ft = 0 /\ env.eos = 0 /\ env.bad = 0) => token = N

\* (5) a failure is visible to the caller: the token holds the cancel value when the batch ends
FailureLeavesCancel == (AllDone /\ (env.ft # 0 \/ env.bad # 0 \/ env.eos # 0)) => token = CANCEL

\* NOT a property of the protocol (false in every clean run): used only by the self-test of the
\* counterexample-confirmation path (KZMC_E1B_EXTRA_INVARIANT=TokenNeverN)
TokenNeverN == token # N

\* (3) every task finishes and the call returns, under weak fairness of each task
Termination == <>AllDone
=============================================================================
